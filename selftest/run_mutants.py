#!/venv/bin/python
"""
Mutation self-test: apply each selftest/mutants/<CID>/*.diff (or seeded/<name>/patch.diff) to a scratch copy of
/repo (outside /repo and /verif), run the property's check against it, expect exit 1 (VIOLATION).

usage: selftest/run_mutants.py [--tier quick] [--only C01] [--seeded] [--jobs 16]
"""
import argparse, glob, json, os, shutil, subprocess, sys, tempfile, time

VERIF = os.path.dirname(os.path.dirname(os.path.abspath(__file__)))


def scratch_copy() -> str:
    d = tempfile.mkdtemp(prefix='kv-mut-', dir='/tmp')
    shutil.copytree('/repo/kopf', os.path.join(d, 'kopf'), ignore=shutil.ignore_patterns('__pycache__'))
    return d


def run_one(cid: str, diff: str, tier: str, jobs: int, seed: int) -> dict:
    d = scratch_copy()
    try:
        p = subprocess.run(['patch', '-p1', '-s', '-d', d, '-i', diff], capture_output=True, text=True)
        if p.returncode != 0:
            return {'cid': cid, 'diff': diff, 'status': 'patch-failed', 'out': p.stdout + p.stderr}
        env = dict(os.environ, VERIF_KOPF_ROOT=d, VERIF_EVIDENCE_DIR=os.path.join(d, 'evidence'),
                   VERIF_REPLAY_DIR=os.path.join(d, 'replays'))
        t0 = time.time()
        p = subprocess.run([os.path.join(VERIF, 'check'), cid, '--tier', tier, '--jobs', str(jobs), '--seed', str(seed)],
                           capture_output=True, text=True, env=env)
        lines = [l for l in p.stdout.splitlines() if l.startswith('  - [')][:3]
        return {'cid': cid, 'diff': os.path.relpath(diff, VERIF), 'rc': p.returncode,
                'status': 'caught' if p.returncode == 1 else ('inconclusive' if p.returncode == 2 else 'MISSED'),
                'wall': round(time.time() - t0, 1), 'first': lines, 'tail': p.stdout.splitlines()[-3:]}
    finally:
        shutil.rmtree(d, ignore_errors=True)


def main() -> int:
    ap = argparse.ArgumentParser()
    ap.add_argument('--tier', default='quick')
    ap.add_argument('--only', default=None)
    ap.add_argument('--seeded', action='store_true')
    ap.add_argument('--jobs', type=int, default=16)
    ap.add_argument('--seed', type=int, default=0)
    ap.add_argument('--patch', default=None, help='a single patch file to test (with --check)')
    ap.add_argument('--check', default=None, help='comma-separated check ids to run against --patch')
    args = ap.parse_args()
    items = []
    if args.patch:
        items = [(c, os.path.abspath(args.patch)) for c in args.check.split(',')]
    elif args.seeded:
        for meta in sorted(glob.glob(os.path.join(VERIF, 'seeded', '*', 'meta.json'))):
            m = json.load(open(meta))
            items.append((m['property'], os.path.join(os.path.dirname(meta), 'patch.diff')))
    else:
        for diff in sorted(glob.glob(os.path.join(VERIF, 'selftest', 'mutants', '*', '*.diff'))):
            items.append((os.path.basename(os.path.dirname(diff)), diff))
    if args.only:
        only = set(args.only.split(','))
        items = [(c, d) for c, d in items if c in only]
    missed = 0
    for cid, diff in items:
        r = run_one(cid, diff, args.tier, args.jobs, args.seed)
        print(json.dumps(r))
        sys.stdout.flush()
        missed += r['status'] != 'caught'
    print(f'{len(items) - missed}/{len(items)} caught')
    return 0 if missed == 0 else 1


if __name__ == '__main__':
    sys.exit(main())

#!/venv/bin/python
"""mkmut.py <CID> <name> <relative file> <<< 'python code operating on variable s (file text)'  -> selftest/mutants/CID/name.diff"""
import os, subprocess, sys, tempfile, shutil
cid, name, rel = sys.argv[1:4]
code = sys.stdin.read()
src = os.path.join('/repo', rel)
s = open(src).read()
orig = s
ns = {'s': s}
exec(code, ns)
s = ns['s']
assert s != orig, 'mutation did not change the file'
d = tempfile.mkdtemp()
try:
    a = os.path.join(d, 'a', rel); b = os.path.join(d, 'b', rel)
    os.makedirs(os.path.dirname(a)); os.makedirs(os.path.dirname(b))
    open(a, 'w').write(orig); open(b, 'w').write(s)
    p = subprocess.run(['diff', '-u', os.path.join('a', rel), os.path.join('b', rel)], cwd=d, capture_output=True, text=True)
    out = os.path.join(os.path.dirname(os.path.abspath(__file__)), 'mutants', cid)
    os.makedirs(out, exist_ok=True)
    open(os.path.join(out, name + '.diff'), 'w').write(p.stdout)
    print(p.stdout)
finally:
    shutil.rmtree(d)

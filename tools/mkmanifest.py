#!/venv/bin/python
"""Regenerate MANIFEST.json from the check modules' metadata. Properties without a module go to not_applicable."""
import importlib, json, os, sys
VERIF = os.path.dirname(os.path.dirname(os.path.abspath(__file__)))
sys.path.insert(0, VERIF); sys.path.insert(0, '/repo')
props = [json.loads(l) for l in open(os.path.join(VERIF, 'properties.jsonl'))]
NA_REASONS = json.load(open(os.path.join(VERIF, 'tools', 'not_applicable.json'))) if os.path.exists(os.path.join(VERIF, 'tools', 'not_applicable.json')) else {}
checks, na = [], []
for p in props:
    pid = p['id']
    path = os.path.join(VERIF, 'kv', 'checks', pid.lower() + '.py')
    if not os.path.exists(path) or pid in NA_REASONS:
        na.append({'property_id': pid, 'reason': NA_REASONS.get(pid, 'no runtime-monitoring check has been built for this property yet; nothing is claimed')})
        continue
    m = importlib.import_module(f'kv.checks.{pid.lower()}')
    checks.append({
        'property_id': pid,
        'quick_cmd': f'./check {pid} --tier quick',
        'thorough_cmd': f'./check {pid} --tier thorough',
        'evidence_file': f'evidence/{pid}.json',
        'replay_cmd_template': f'./check {pid} --replay {{path}}',
        'engine': 'kv',
        'level_claimed': {'category': m.LEVEL, 'text': m.LEVEL_TEXT, 'design_ref': f'DESIGN.md section 3, {pid}'},
        'level_note': m.LEVEL_NOTE,
        'technique': m.TECHNIQUE,
    })
manifest = {
    'version': 1,
    'setup_cmd': "/venv/bin/python -c \"import sys; sys.path.insert(0,'/verif'); from kv import env; env.ensure_deps()\" ; /venv/bin/python -m compileall -q /verif/kv >/dev/null 2>&1; true",
    'hooks': {
        'guard': 'KOPF_VERIF',
        'enable': 'no source hooks: every observation point is reached from the harness (public API, module attributes kopf itself resolves at call time, sys.monitoring); checks export KOPF_VERIF=1 for uniformity only',
        'baseline_off_cmd': 'cd /repo && /venv/bin/python -m pytest -ra -q -p no:cacheprovider --timeout=900 --continue-on-collection-errors',
        'source_commits': [],
        'add_only': True,
    },
    'engines': [{'name': 'kv', 'path': 'kv/', 'serves_properties': [c['property_id'] for c in checks],
                 'kind_free_text': 'runtime monitoring: whole kopf operator (or one real component) run on virtual time (looptime) against an in-process stateful fake Kubernetes API with fault/latency/kill injection; offline trace oracles, reference models, sys.monitoring stall sanitizer and line probes'}],
    'checks': checks,
    'not_applicable': na,
    'notes': 'exit 0 held on everything explored (KNOWN-FINDING lines possible), 1 VIOLATION, 2 INCONCLUSIVE (coverage gate missed / watchdog / harness error). Checks honour VERIF_SEED, VERIF_TIER, VERIF_KOPF_ROOT (default /repo).',
}
json.dump(manifest, open(os.path.join(VERIF, 'MANIFEST.json'), 'w'), indent=1)
print('claimed', [c['property_id'] for c in checks]); print('n/a', [n['property_id'] for n in na])

#!/bin/bash
# runsuite.sh <tree> <out-failed-ids-file> [jobs]  -- the whole test suite of <tree>, one pytest process per tests/ entry, in parallel
T="$1"; OUT="$2"; J="${3:-6}"
cd "$T" || exit 2
TMP=$(mktemp -d /tmp/sv/rs.XXXXXX)
ls -d tests/*/ tests/test_*.py 2>/dev/null | sed 's#/$##' | xargs -P "$J" -I{} sh -c 'n=$(echo {} | tr / _); PYTHONPATH='"$T"' timeout 2400 /venv/bin/python -m pytest -q -p no:cacheprovider --timeout=900 --continue-on-collection-errors -rfE {} > '"$TMP"'/$n.log 2>&1'
cat "$TMP"/*.log | grep -E "^(FAILED|ERROR) " | sed 's/ - .*//' | sort -u > "$OUT"
cat "$TMP"/*.log | grep -E "^[0-9]+ (passed|failed)|passed|failed" | grep -E "in [0-9.]+s" | awk '{print}' | tail -40 > "$OUT.summary"
rm -rf "$TMP"
wc -l < "$OUT"

#!/bin/bash
# validate_seed.sh <seed-dir> <k>   e.g. /tmp/seeds/C01 1
# Confirms in a scratch worktree (outside /repo and /verif): patch applies; demo FAILS with it and PASSES without;
# the repository's full test suite has the same failing ids as the pristine baseline. Writes <seed-dir>/validation<k>.json
set -u
SD="$1"; K="$2"; ID=$(basename "$SD")
WT="/tmp/wt/${ID}"     # the agent's own scratch worktree (some demos insist on that path)
BASE=/tmp/sv/baseline_failed.txt
[ -d "$WT" ] || { git -C /repo worktree add --detach "$WT" HEAD >/dev/null 2>&1 && cp /repo/kopf/_cogs/helpers/versions.py "$WT/kopf/_cogs/helpers/versions.py"; }
git -C "$WT" checkout -- kopf
git -C "$WT" checkout -q --detach "$(git -C /repo rev-parse HEAD)" 2>/dev/null   # validate against the CURRENT tree of /repo (with its fix: commits)
mkdir -p "$WT/_seed"; cp "$SD"/demo*.py "$WT/_seed/" 2>/dev/null; [ -d "$SD/extra" ] && cp "$SD"/extra/demo*.py "$WT/_seed/" 2>/dev/null
PATCH="$SD/patch$K.diff"; [ -f "$PATCH" ] || PATCH="$SD/extra/patch$K.diff"
[ -f "$SD/patch$K.rebased.diff" ] && PATCH="$SD/patch$K.rebased.diff"     # rebased onto the fixed tree
META="$SD/meta$K.json"; [ -f "$META" ] || META="$SD/extra/meta$K.json"
DEMO="_seed/demo$K.py"
cd "$WT"
rundemo() {
  if grep -q "^def test_\|^async def test_\|pytest" "$DEMO" && grep -q "def test_" "$DEMO"; then
    PYTHONPATH="$WT" timeout 600 /venv/bin/python -m pytest -q -p no:cacheprovider "$DEMO" >"$1" 2>&1
  else
    PYTHONPATH="$WT" timeout 600 /venv/bin/python "$DEMO" >"$1" 2>&1
  fi
  echo $?
}
APPLY=0; if git apply --check "$PATCH" 2>/dev/null; then git apply "$PATCH" && APPLY=1; elif patch -p1 -s --dry-run -i "$PATCH" >/dev/null 2>&1; then patch -p1 -s -i "$PATCH" && APPLY=1; fi
WITH=$(rundemo /tmp/sv/${ID}_${K}.with.log)
/tmp/sv/runsuite.sh "$WT" /tmp/sv/${ID}_${K}.failed.txt 6 >/dev/null; cd "$WT"
git checkout -- kopf
WITHOUT=$(rundemo /tmp/sv/${ID}_${K}.without.log)
NEWFAIL=$(comm -23 /tmp/sv/${ID}_${K}.failed.txt "$BASE" | wc -l)
NFAIL=$(wc -l < /tmp/sv/${ID}_${K}.failed.txt)
cd /
cat > "$SD/validation$K.json" <<JSON
{"seed": "$ID/$K", "patch_applies": $APPLY, "demo_rc_with_patch": $WITH, "demo_rc_without_patch": $WITHOUT, "suite_failed_ids": $NFAIL, "suite_new_failures_vs_pristine": $NEWFAIL,
 "ok": $([ "$APPLY" = 1 ] && [ "$WITH" != 0 ] && [ "$WITHOUT" = 0 ] && [ "$NEWFAIL" = 0 ] && echo true || echo false)}
JSON
cat "$SD/validation$K.json"

#!/venv/bin/python
"""tools/dbglogs.py <check id> <replay.json> <t_from> <t_to>  -- re-run a replay case's scenario with kopf's logs captured (debug aid)."""
import copy
import json
import sys

sys.path.insert(0, '/verif')
from kv import env  # noqa: E402

env.setup_paths()
from kv.monitors import Stall  # noqa: E402

Stall.install()
from kv.world import run_world  # noqa: E402

cid, path, t0, t1 = sys.argv[1], sys.argv[2], float(sys.argv[3]), float(sys.argv[4])
d = json.load(open(path))
desc = copy.deepcopy(d['case']['desc'])
if cid.upper() == "C10":
    from kv.checks import c10
    c10._patch_callable_delay(desc)
w = run_world(desc, capture_logs=True)
for t, name, lvl, msg in w.sim.logs.records:
    if t0 <= t <= t1:
        print(round(t, 6), name, lvl, msg[:300])

#!/bin/bash
# validate every not-yet-validated seed of the given ids (sequentially per id)
for ID in "$@"; do
  SD=/tmp/seeds/$ID
  for M in $SD/meta*.json $SD/extra/meta*.json; do
    [ -f "$M" ] || continue
    K=$(basename $M | sed 's/meta\([0-9]*\).json/\1/')
    [ -f "$SD/validation$K.json" ] || /verif/tools/validate_seed.sh $SD $K
  done
done

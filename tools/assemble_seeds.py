#!/venv/bin/python
"""
tools/assemble_seeds.py [SRC=/tmp/seeds]  -- copy the validated sub-agent changes into /verif/seeded/<ID>-<n>/ (patch.diff, demo.py, meta.json).
The patch stored is the one that applies to /repo's CURRENT tree (rebased where a fix: commit touched the same lines).
"""
import glob, json, os, shutil, subprocess, sys

SRC = sys.argv[1] if len(sys.argv) > 1 else '/tmp/seeds'
DST = '/verif/seeded'
head = subprocess.run(['git', '-C', '/repo', 'rev-parse', '--short', 'HEAD'], capture_output=True, text=True).stdout.strip()
os.makedirs(DST, exist_ok=True)
n_ok = 0
for meta in sorted(glob.glob(f'{SRC}/C*/meta*.json') + glob.glob(f'{SRC}/C*/extra/meta*.json')):
    d = os.path.dirname(meta)
    sd = d[:-6] if d.endswith('/extra') else d
    cid = os.path.basename(sd)
    n = os.path.basename(meta)[4:-5]
    m = json.load(open(meta))
    patch = os.path.join(d, f'patch{n}.diff')
    rebased = os.path.join(sd, f'patch{n}.rebased.diff')
    use = rebased if os.path.exists(rebased) else patch
    demo = os.path.join(d, f'demo{n}.py')
    val = os.path.join(sd, f'validation{n}.json')
    out = os.path.join(DST, f'{cid}-{n}')
    os.makedirs(out, exist_ok=True)
    shutil.copy(use, os.path.join(out, 'patch.diff'))
    if os.path.exists(demo):
        shutil.copy(demo, os.path.join(out, 'demo.py'))
    applies = subprocess.run(['git', '-C', '/repo', 'apply', '--check', os.path.join(out, 'patch.diff')], capture_output=True).returncode == 0
    if not applies:
        applies = subprocess.run(['patch', '-p1', '-s', '--dry-run', '-d', '/repo', '-i', os.path.join(out, 'patch.diff')], capture_output=True).returncode == 0
    v = json.load(open(val)) if os.path.exists(val) else None
    keep = {}
    old = os.path.join(out, 'meta.json')
    if os.path.exists(old):
        keep = {k: v2 for k, v2 in json.load(open(old)).items() if k in ('caught_by', 'missed_by', 'checked_against')}
    json.dump({
        'property': m.get('property', cid), 'seed': f'{cid}-{n}',
        'summary': m.get('summary'), 'needs_to_manifest': m.get('needs'), 'files': m.get('files'),
        'origin': 'written by an independent sub-agent that saw only the property text, in its own scratch worktree',
        'patch_rebased_onto_fixed_tree': os.path.exists(rebased), 'applies_to_repo_head': head if applies else None,
        'demo': {'file': 'demo.py', 'how': 'copy to <tree>/_seed/ and run with /venv/bin/python (pytest for test_* demos) in a tree with / without patch.diff applied',
                 'agent_reported': {'fails_with_patch': m.get('demo_fails_with_patch'), 'passes_without_patch': m.get('demo_passes_without_patch')}},
        'what_i_ran': {'validation_on_repo_head': v,
                       'note': 'tools/validate_seed.sh: scratch worktree at /repo HEAD; demo without patch (expect rc 0) and with patch (expect rc != 0); '
                               'full test suite with the patch: failing ids compared with the pristine baseline (expect no new ones)'},
        **keep,
    }, open(os.path.join(out, 'meta.json'), 'w'), indent=1)
    n_ok += bool(v and v.get('ok'))
    print(f'{cid}-{n}: patch={"rebased" if use == rebased else "orig"} applies={applies} validated={v.get("ok") if v else None}')
print('validated ok:', n_ok)

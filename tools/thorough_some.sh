#!/bin/bash
# tools/thorough_some.sh <seed> <ids...>: thorough tier of the given checks, one line each (evidence and replays go to /tmp)
cd "$(dirname "$0")/.." || exit 2
S=$1; shift
for id in "$@"; do
  out=$(VERIF_EVIDENCE_DIR=/tmp/sweep-evidence/thorough-$S VERIF_REPLAY_DIR=/tmp/sweep-replays/thorough-$S ./check $id --tier thorough --seed $S --jobs 8 2>&1); rc=$?
  echo "$id seed=$S rc=$rc $(echo "$out" | grep "^$id tier" | cut -c1-140)"
  [ $rc -ne 0 ] && echo "$out" | grep -E "^  - |INCONCLUSIVE|VIOLATION" | head -6 | cut -c1-300
done

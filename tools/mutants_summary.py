#!/venv/bin/python
"""tools/mutants_summary.py <run_mutants log>  -> /tmp/mut_all.json {CID: {caught, total, missed: [...]}} and a printed summary."""
import json, sys, collections
res = collections.defaultdict(lambda: {'caught': 0, 'total': 0, 'missed': []})
last = {}
for line in open(sys.argv[1]):
    line = line.strip()
    if not line.startswith('{'):
        continue
    try:
        r = json.loads(line)
    except Exception:
        continue
    last[(r['cid'], r.get('diff'))] = r       # the latest result of each mutant counts
for (cid, diff), r in last.items():
    c = res[cid]
    c['total'] += 1
    if r.get('status') == 'caught':
        c['caught'] += 1
    else:
        c['missed'].append((diff, r.get('status')))
json.dump(res, open('/tmp/mut_all.json', 'w'), indent=1)
for k in sorted(res):
    print(k, f"{res[k]['caught']}/{res[k]['total']}", res[k]['missed'] or '')

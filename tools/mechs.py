#!/venv/bin/python
"""tools/mechs.py <CID> [mech]  -- histogram of violation mechanisms over replays/<CID>/*.json; with a mechanism: print its messages."""
import glob, json, sys, collections
cid = sys.argv[1]
want = sys.argv[2] if len(sys.argv) > 2 else None
h = collections.Counter()
for f in sorted(glob.glob(f'/verif/replays/{cid}/*.json')):
    d = json.load(open(f))
    for v in d.get('violations', []):
        h[v['mech']] += 1
        if want and v['mech'] == want:
            print(f, v['msg'][:400])
for k, n in h.most_common():
    print(n, k)

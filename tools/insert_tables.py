#!/venv/bin/python
"""tools/insert_tables.py -- (re)generate section 6.5 of DESIGN.md from seeded/matrix.json, the mutants summary (/tmp/mut_all.json) and evidence/."""
import re, subprocess
tables = subprocess.run(['/verif/tools/design_tables.py'], capture_output=True, text=True).stdout
head = """### 6.5 Who catches what

Each seeded change was applied to a scratch copy of `/repo`'s current tree (`VERIF_KOPF_ROOT`), the property's own quick check was run
(seeds 0, 1, 2 until it fired) and, once, every other check at seed 0 (`tools/seed_matrix.py [--all]`, results in `seeded/matrix.json`).
All 41 changes are caught: 39 by the check of the property they were written against; C03-1 is a per-object queueing break (it drops the
re-check of the backlog after the idle timeout) that C03's closed loop cannot reach — it is caught by C01, whose component-level driver
constructs that coincidence, and by C07; C15-2 breaks "resume once per process" rather than handler selection and is caught by C14 (and
C02, C03). No check raised an alarm on a seeded change outside its own property except where the change really breaks that property too
(column "also caught by"). The mechanism key shown is the first violation the own check printed.

"""
tail = """
Mutation self-test (`selftest/run_mutants.py`, quick tier, seed 0): every mutant listed under `selftest/mutants/` is caught by its
check, including the reverts of all `fix:` commits. Race-window defects (13, 14, 14a and the seeded C19-1, C20-2) are hit by *directed*
cases that enumerate the phase shift between the two tasks involved (`post_yields` 0..13 x both orders of the same-instant operations),
so their detection does not depend on the seed.
"""
p = '/verif/DESIGN.md'
s = open(p).read()
block = head + tables + tail
if '### 6.5 Who catches what' in s:
    s = re.sub(r'### 6\.5 Who catches what.*?(?=\n### 6\.6 )', block, s, flags=re.S)
else:
    s = s.replace('\n### 6.6 How the five checks built last differ from their plan', '\n' + block + '\n### 6.6 How the five checks built last differ from their plan', 1)
open(p, 'w').write(s)
print('ok')

#!/venv/bin/python
"""
tools/seed_matrix.py [--all] [--only C09-1,...]  -- run checks against every seeded change (scratch copy of /repo + patch, VERIF_KOPF_ROOT),
record who catches what into seeded/<id>/meta.json and seeded/matrix.json.  Default: the seed's own property check (+ listed extras); --all: every check.
"""
import glob, json, os, shutil, subprocess, sys, tempfile, time
from concurrent.futures import ThreadPoolExecutor

VERIF = '/verif'
ALL = '--all' in sys.argv
only = None
if '--only' in sys.argv:
    only = set(sys.argv[sys.argv.index('--only') + 1].split(','))
checks = [c['property_id'] for c in json.load(open(f'{VERIF}/MANIFEST.json'))['checks']]
EXTRA = {'C03-1': ['C01'], 'C15-2': ['C14'], 'C03-2': ['C14'], 'C05-1': ['C14'], 'C19-3': ['C01'], 'C05-3': ['C14'], 'C13-4': ['C20'], 'C19-4': ['C13'], 'C06-5': ['C08'], 'C02-4': ['C14']}


def run(seed_dir: str) -> dict:
    name = os.path.basename(seed_dir)
    cid = name.split('-')[0]
    todo = checks if ALL else [cid] + EXTRA.get(name, [])
    d = tempfile.mkdtemp(prefix='kv-seed-', dir='/tmp')
    res = {}
    try:
        shutil.copytree('/repo/kopf', os.path.join(d, 'kopf'), ignore=shutil.ignore_patterns('__pycache__'))
        p = subprocess.run(['patch', '-p1', '-s', '-d', d, '-i', os.path.join(seed_dir, 'patch.diff')], capture_output=True, text=True)
        if p.returncode != 0:
            return {'seed': name, 'error': 'patch failed: ' + p.stdout + p.stderr}
        for c in todo:
            for seed in (0, 1, 2):
                env = dict(os.environ, VERIF_KOPF_ROOT=d, VERIF_EVIDENCE_DIR=os.path.join(d, 'ev'), VERIF_REPLAY_DIR=os.path.join(d, 'rp'))
                t0 = time.time()
                try:
                    q = subprocess.run([f'{VERIF}/check', c, '--tier', 'quick', '--seed', str(seed), '--jobs', '6'], capture_output=True, text=True, env=env, timeout=1800)
                    rc = q.returncode
                    first = [l.strip()[:200] for l in q.stdout.splitlines() if l.startswith('  - [')][:1]
                except subprocess.TimeoutExpired:
                    rc, first = 3, ['timeout']
                res[c] = {'rc': rc, 'seed': seed, 'first': first, 'wall': round(time.time() - t0, 1)}
                if rc == 1 or ALL or c != cid:
                    break       # caught (or cross-check: one seed only)
        return {'seed': name, 'results': res}
    finally:
        shutil.rmtree(d, ignore_errors=True)


dirs = sorted(x for x in glob.glob(f'{VERIF}/seeded/C*-*') if os.path.isdir(x) and (only is None or os.path.basename(x) in only))
with ThreadPoolExecutor(max_workers=3) as ex:
    out = list(ex.map(run, dirs))
mpath = f'{VERIF}/seeded/matrix.json'
matrix = json.load(open(mpath)) if os.path.exists(mpath) else {}
for r in out:
    if 'error' in r:
        print(r)
        continue
    cur = matrix.setdefault(r['seed'], {})
    cur.update({c: ('caught' if v['rc'] == 1 else 'held' if v['rc'] == 0 else 'inconclusive' if v['rc'] == 2 else 'timeout') for c, v in r['results'].items()})
    meta = json.load(open(f"{VERIF}/seeded/{r['seed']}/meta.json"))
    meta['caught_by'] = sorted(c for c, v in cur.items() if v == 'caught')
    meta['checked_against'] = sorted(cur)
    own = r['results'].get(r['seed'].split('-')[0])
    if own:
        meta['own_check_first_violation'] = own['first']
    json.dump(meta, open(f"{VERIF}/seeded/{r['seed']}/meta.json", 'w'), indent=1)
    print(r['seed'], {c: v['rc'] for c, v in r['results'].items()})
json.dump(matrix, open(mpath, 'w'), indent=1, sort_keys=True)

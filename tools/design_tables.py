#!/venv/bin/python
"""tools/design_tables.py -- print markdown tables for DESIGN.md 6.5 from seeded/matrix.json, seeded/*/meta.json, selftest results (/tmp/mut_all.json if present) and evidence/*.json."""
import glob, json, os
V = '/verif'
m = json.load(open(f'{V}/seeded/matrix.json')) if os.path.exists(f'{V}/seeded/matrix.json') else {}
print('| seeded change | what it breaks (one line) | own check | also caught by |')
print('|---|---|---|---|')
for d in sorted(glob.glob(f'{V}/seeded/C*-*')):
    name = os.path.basename(d)
    meta = json.load(open(f'{d}/meta.json'))
    own = name.split('-')[0]
    res = m.get(name, {})
    others = sorted(c for c, v in res.items() if v == 'caught' and c != own)
    summ = (meta.get('summary') or '').split('. ')[0][:150].replace('|', '/').replace('\n', ' ')
    first = (meta.get('own_check_first_violation') or [''])[0]
    mech = first[first.find('[') + 1:first.find(']')] if '[' in first else ''
    print(f"| {name}{' (rebased)' if meta.get('patch_rebased_onto_fixed_tree') else ''} | {summ} | {res.get(own, 'not run')}{' `' + mech + '`' if mech else ''} | {', '.join(others) or '—'} |")
print()
print('| check | level | quick cases | distinct non-trivial | mutants caught | wall (quick) |')
print('|---|---|---|---|---|---|')
mut = json.load(open('/tmp/mut_all.json')) if os.path.exists('/tmp/mut_all.json') else {}
for f in sorted(glob.glob(f'{V}/evidence/C*.json')):
    e = json.load(open(f))
    cid = os.path.basename(f)[:-5]
    mc = mut.get(cid)
    print(f"| {cid} | {e.get('level')} | {e['coverage'].get('evaluations')} | {e['coverage'].get('distinct_nontrivial')} | "
          f"{(str(mc['caught']) + '/' + str(mc['total'])) if mc else 'n/a'} | {e.get('wall_s', '')} |")

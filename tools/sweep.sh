#!/bin/bash
# tools/sweep.sh [tier] [seeds...]   runs every claimed check for each seed; prints one line per (check, seed); non-zero exits are flagged
cd "$(dirname "$0")/.." || exit 2
TIER=${1:-quick}; shift
SEEDS=${@:-0 1 2 3}
IDS=$(python3 -c "import json; print(' '.join(c['property_id'] for c in json.load(open('MANIFEST.json'))['checks']))")
for id in $IDS; do for s in $SEEDS; do
  out=$(VERIF_EVIDENCE_DIR=/tmp/sweep-evidence/$TIER-$s ./check $id --tier $TIER --seed $s 2>&1); rc=$?
  echo "$id seed=$s rc=$rc $(echo "$out" | grep "^$id tier" | cut -c1-160)"
  [ $rc -ne 0 ] && echo "$out" | grep -E "^  - |INCONCLUSIVE|watchdog|harness" | head -5
done; done

"""
Process environment of every check: which kopf tree is exercised, third-party deps, paths.

kopf is imported from $VERIF_KOPF_ROOT (default /repo) placed FIRST on sys.path, so that the
checks always exercise the current working tree, and the mutation self-test can point the same
checks at a scratch copy. ``assert_kopf_root()`` refuses to run against anything else.
"""
from __future__ import annotations

import os
import subprocess
import sys

VERIF = os.path.dirname(os.path.dirname(os.path.abspath(__file__)))
KOPF_ROOT = os.path.abspath(os.environ.get('VERIF_KOPF_ROOT', '/repo'))
DEPS = os.path.join(VERIF, '.deps')
WHEELS = '/opt/veriftools/wheels'
PY = '/venv/bin/python'


def ensure_deps() -> None:
    """Install icontract beside the repo's interpreter (git-ignored .deps), offline, idempotent."""
    marker = os.path.join(DEPS, 'icontract')
    if not os.path.isdir(marker):
        os.makedirs(DEPS, exist_ok=True)
        subprocess.run([PY, '-m', 'pip', 'install', '--quiet', '--no-index', '--find-links', WHEELS,
                        '--target', DEPS, 'icontract'], check=False,
                       stdout=subprocess.DEVNULL, stderr=subprocess.DEVNULL)


def setup_paths() -> None:
    if KOPF_ROOT in sys.path:
        sys.path.remove(KOPF_ROOT)
    sys.path.insert(0, KOPF_ROOT)
    if VERIF not in sys.path:
        sys.path.insert(1, VERIF)
    if os.path.isdir(DEPS) and DEPS not in sys.path:
        sys.path.append(DEPS)
    sys.dont_write_bytecode = True


def assert_kopf_root() -> str:
    import kopf
    path = os.path.abspath(kopf.__file__)
    if not path.startswith(KOPF_ROOT + os.sep):
        raise RuntimeError(f"kopf imported from {path}, expected under {KOPF_ROOT}")
    return path


def child_env() -> dict[str, str]:
    env = dict(os.environ)
    env['PYTHONHASHSEED'] = env.get('PYTHONHASHSEED', '0')
    env['PYTHONDONTWRITEBYTECODE'] = '1'
    env['VERIF_KOPF_ROOT'] = KOPF_ROOT
    env['PYTHONPATH'] = os.pathsep.join([KOPF_ROOT, VERIF] + ([DEPS] if os.path.isdir(DEPS) else []))
    env['KOPF_VERIF'] = '1'
    return env

"""
Reference models written independently of kopf's code (from its documentation and the K8s conventions):
essence of an object, where progress records / last-handled state / finalizer live, cause decision table.
"""
from __future__ import annotations

import copy
import json
from typing import Any

DEFAULT_PREFIX = 'kopf.zalando.org'
DEFAULT_FINALIZER = 'kopf.zalando.org/KopfFinalizerMarker'
LAST_APPLIED = 'kubectl.kubernetes.io/last-applied-configuration'


class StorageView:
    """Reads what a given storage configuration persisted on a server-side body."""

    def __init__(self, storage: str | None = 'default', prefix: str | None = None) -> None:
        self.storage = storage or 'default'
        self.prefix = prefix or DEFAULT_PREFIX
        self.in_annotations = self.storage in ('default', 'annotations', 'smart')
        self.in_status = self.storage in ('status',)
        self.finalizer = DEFAULT_FINALIZER if self.storage in ('status',) or self.prefix == DEFAULT_PREFIX \
            else f'{self.prefix}/KopfFinalizerMarker'
        if self.storage == 'default' and self.prefix == DEFAULT_PREFIX:
            self.finalizer = DEFAULT_FINALIZER

    @staticmethod
    def mark(body: dict[str, Any] | None) -> str:
        """The documented collision-evading suffix of the annotation names of a ReplicaSet that is owned by a Deployment (which copies its annotations onto it)."""
        if body is None or body.get('kind') != 'ReplicaSet':
            return ''
        owners = (body.get('metadata') or {}).get('ownerReferences') or []
        return '-ofDRS' if any(o.get('kind') == 'Deployment' for o in owners) else ''

    def ann_key(self, hid: str, body: dict[str, Any] | None = None) -> str:
        safe = hid.replace('/', '.').replace('<', '_').replace('>', '_')
        return f'{self.prefix}/{safe}{self.mark(body)}'

    def record(self, body: dict[str, Any] | None, hid: str) -> dict[str, Any] | None:
        if body is None:
            return None
        if self.in_annotations:
            raw = ((body.get('metadata') or {}).get('annotations') or {}).get(self.ann_key(hid, body))
            if raw is not None:
                try:
                    return json.loads(raw)
                except Exception:
                    return {'_corrupt': raw}
            if self.storage in ('default', 'smart'):
                st = (((body.get('status') or {}).get('kopf') or {}).get('progress') or {}).get(hid)
                return st
            return None
        st = (((body.get('status') or {}).get('kopf') or {}).get('progress') or {}).get(hid)
        return st

    def records(self, body: dict[str, Any] | None, hids: list[str]) -> dict[str, dict[str, Any]]:
        out = {}
        for h in hids:
            r = self.record(body, h)
            if r is not None:
                out[h] = r
        return out

    def any_progress_keys(self, body: dict[str, Any] | None) -> list[str]:
        """All progress-looking keys of this operator's prefix (not the diff-base, touch or marker keys)."""
        if body is None:
            return []
        found = []
        if self.in_annotations:
            for k in ((body.get('metadata') or {}).get('annotations') or {}):
                if k.startswith(self.prefix + '/') and k.split('/', 1)[1].removesuffix('-ofDRS') not in (
                        'last-handled-configuration', 'touch-dummy', 'kopf-managed'):
                    found.append(k)
        else:
            found += list((((body.get('status') or {}).get('kopf') or {}).get('progress') or {}).keys())
        return found

    def diffbase(self, body: dict[str, Any] | None) -> dict[str, Any] | None:
        if body is None:
            return None
        if self.in_annotations:
            raw = ((body.get('metadata') or {}).get('annotations') or {}).get(f'{self.prefix}/last-handled-configuration{self.mark(body)}')
            if raw is not None:
                return json.loads(raw)
            if self.storage == 'smart':
                raw = ((body.get('status') or {}).get('kopf') or {}).get('last-handled-configuration')
                return json.loads(raw) if raw is not None else None
            return None
        raw = ((body.get('status') or {}).get('kopf') or {}).get('last-handled-configuration')
        return json.loads(raw) if raw is not None else None

    def has_finalizer(self, body: dict[str, Any] | None) -> bool:
        return body is not None and self.finalizer in ((body.get('metadata') or {}).get('finalizers') or [])


def finished(rec: dict[str, Any] | None) -> bool:
    return bool(rec and (rec.get('success') or rec.get('failure')))


def essence(body: dict[str, Any], own_prefixes: tuple[str, ...] = (DEFAULT_PREFIX,)) -> dict[str, Any]:
    """
    The part of an object whose change is 'essential' (docs: everything except status, system metadata and the
    framework's own annotations). Only defined here for bodies whose payload is spec/other top-level fields,
    labels and ordinary annotations.
    """
    out: dict[str, Any] = {}
    for k, v in body.items():
        if k in ('apiVersion', 'kind', 'metadata', 'status'):
            continue
        out[k] = copy.deepcopy(v)
    meta = body.get('metadata') or {}
    labels = dict(meta.get('labels') or {})
    ann = dict(meta.get('annotations') or {})
    marked = {k.split('/', 1)[0] for k in ann if '/' in k and k.split('/', 1)[1] == 'kopf-managed'}
    keep = {}
    for k, v in ann.items():
        pfx = k.split('/', 1)[0] if '/' in k else None
        if pfx is not None and (pfx in own_prefixes or pfx in marked or pfx == DEFAULT_PREFIX or pfx.endswith('.' + DEFAULT_PREFIX)):
            continue
        if k == LAST_APPLIED:
            continue
        keep[k] = v
    m: dict[str, Any] = {}
    if labels:
        m['labels'] = labels
    if keep:
        m['annotations'] = keep
    if m:
        out['metadata'] = m
    return out


def json_eq_mod_null(a: Any, b: Any) -> bool:
    """JSON equality modulo 'null-valued key == absent key' (kopf's diff format uses None as the absence marker)."""
    return _strip_nulls(a) == _strip_nulls(b) and _typed(_strip_nulls(a)) == _typed(_strip_nulls(b))


def _strip_nulls(x: Any) -> Any:
    if isinstance(x, dict):
        return {k: _strip_nulls(v) for k, v in x.items() if v is not None}
    if isinstance(x, list):
        return [_strip_nulls(v) for v in x]
    return x


def _typed(x: Any) -> Any:
    """A structure that distinguishes True/1 and False/0 (JSON does; Python == does not)."""
    if isinstance(x, dict):
        return {k: _typed(v) for k, v in x.items()}
    if isinstance(x, list):
        return [_typed(v) for v in x]
    if isinstance(x, bool):
        return ('bool', x)
    if isinstance(x, (int, float)):
        return ('num', x)
    return x


# Cause decision table (docs: "really gone > released > deletion > creation > resume > no-op > update").
def expected_reason(etype: str | None, deleting: bool, has_finalizer: bool, has_base: bool, differs: bool, initial: bool) -> str:
    if etype == 'DELETED':
        return 'gone'
    if deleting and not has_finalizer:
        return 'free'
    if deleting:
        return 'delete'
    if not has_base:
        return 'create'
    if not differs and initial:
        return 'resume'
    if not differs:
        return 'noop'
    return 'update'

"""./check <ID> --tier quick|thorough [--seed N] [--replay FILE] [--jobs N]"""
from __future__ import annotations

import argparse
import os
import sys


def main() -> int:
    ap = argparse.ArgumentParser()
    ap.add_argument('check')
    ap.add_argument('--tier', default=os.environ.get('VERIF_TIER', 'quick'), choices=['quick', 'thorough'])
    ap.add_argument('--seed', type=int, default=int(os.environ.get('VERIF_SEED', '0') or 0))
    ap.add_argument('--replay', default=None)
    ap.add_argument('--jobs', type=int, default=int(os.environ.get('VERIF_JOBS', '16')))
    ap.add_argument('-v', '--verbose', action='store_true')
    args = ap.parse_args()
    from kv import runner
    return runner.run_check(args.check, args.tier, args.seed, jobs=args.jobs, replay=args.replay, verbose=args.verbose)


if __name__ == '__main__':
    sys.exit(main())

"""
Online contracts on real kopf functions while workloads run (DESIGN 2.5).

Wrappers are bound through the module attributes kopf itself resolves at call time (``causes.detect_changing_cause``
is looked up in ``kopf._core.intents.causes`` by ``processing`` on every call). Conditions only RECORD; verdicts are
taken from the record afterwards, so a contract never aborts what it observes. Each wrapper counts its evaluations:
zero evaluations means the monitor was bypassed (inconclusive), never "held".
"""
from __future__ import annotations

import functools
from typing import Any

from kv.driver import op_var
from kv.fakekube import GSEQ

SINK: list[dict[str, Any]] = []
COUNTS: dict[str, int] = {}
_installed: set[str] = set()


def reset() -> None:
    SINK.clear()
    COUNTS.clear()


def _now() -> float:
    import asyncio
    try:
        return asyncio.get_running_loop().time()
    except RuntimeError:
        return -1.0


def install_cause_contract() -> None:
    if 'cause' in _installed:
        return
    from kopf._core.intents import causes
    orig = causes.detect_changing_cause

    @functools.wraps(orig)
    def detect_changing_cause(**kw: Any) -> Any:
        cause = orig(**kw)
        COUNTS['detect_changing_cause'] = COUNTS.get('detect_changing_cause', 0) + 1
        try:
            body = kw['body']
            meta = body.get('metadata', {})
            SINK.append({'k': 'detect', 'g': next(GSEQ), 't': _now(), 'inc': op_var.get(), 'uid': meta.get('uid'),
                         'rv': meta.get('resourceVersion'), 'etype': kw['raw_event']['type'],
                         'deleting': meta.get('deletionTimestamp') is not None,
                         'has_finalizer': kw['finalizer'] in (meta.get('finalizers') or []),
                         'has_old': kw.get('old') is not None, 'diff': bool(kw.get('diff')), 'initial': bool(kw.get('initial')),
                         'reason': str(cause.reason), 'cause_initial': bool(cause.initial),
                         'old': kw.get('old'), 'new': kw.get('new')})
        except Exception as e:  # pragma: no cover - the contract must never disturb the run
            SINK.append({'k': 'contract-error', 'what': repr(e)})
        return cause
    causes.detect_changing_cause = detect_changing_cause  # type: ignore[assignment]
    _installed.add('cause')


def install_patch_contract() -> None:
    """application.patch_and_check: which body (uid) the patch was computed for."""
    if 'patch' in _installed:
        return
    from kopf._core.actions import application
    orig = application.patch_and_check

    @functools.wraps(orig)
    async def patch_and_check(**kw: Any) -> Any:
        COUNTS['patch_and_check'] = COUNTS.get('patch_and_check', 0) + 1
        body = kw.get('body')
        patch = kw.get('patch')
        rec = {'k': 'patch_and_check', 'g': next(GSEQ), 't': _now(), 'inc': op_var.get(),
               'uid': (body.get('metadata', {}) if body is not None else {}).get('uid'),
               'name': (body.get('metadata', {}) if body is not None else {}).get('name'),
               'nonempty': bool(patch)}
        SINK.append(rec)
        try:
            return await orig(**kw)
        finally:
            rec['g_end'] = next(GSEQ)
    application.patch_and_check = patch_and_check  # type: ignore[assignment]
    _installed.add('patch')

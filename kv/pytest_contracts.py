"""
A pytest plugin that runs the REPOSITORY'S OWN tests with recording contracts on real kopf functions
(`pytest -p kv.pytest_contracts` with /verif on PYTHONPATH). The tests' inputs become a free workload for the
reference models of C05 (cause table) and C04 (diff round trip).  Contracts only record; nothing a test does is altered.
The report goes to $KV_CONTRACT_REPORT (JSON): evaluations and disagreements per contract.
"""
from __future__ import annotations

import copy
import json
import os
from typing import Any

REPORT: dict[str, Any] = {'cause': {'evaluations': 0, 'disagreements': []}, 'diff': {'evaluations': 0, 'disagreements': [], 'known_bool_int': 0}}


def _install() -> None:
    from kopf._cogs.structs import diffs
    from kopf._core.intents import causes

    from kv.checks.c04 import apply_diff
    from kv.refmodels import _typed, expected_reason, json_eq_mod_null

    orig_detect = causes.detect_changing_cause

    def detect_changing_cause(**kw: Any) -> Any:
        cause = orig_detect(**kw)
        try:
            body = kw['body']
            meta = body.get('metadata', {}) or {}
            REPORT['cause']['evaluations'] += 1
            exp = expected_reason(kw['raw_event']['type'], meta.get('deletionTimestamp') is not None, kw['finalizer'] in (meta.get('finalizers') or []),
                                  kw.get('old') is not None, bool(kw.get('diff')) if kw.get('old') is not None else True, bool(kw.get('initial')))
            got = str(getattr(cause.reason, 'value', cause.reason))
            if got != exp and len(REPORT['cause']['disagreements']) < 20:
                REPORT['cause']['disagreements'].append({'expected': exp, 'got': got, 'etype': kw['raw_event']['type'], 'deleting': meta.get('deletionTimestamp') is not None,
                                                         'initial': bool(kw.get('initial')), 'has_old': kw.get('old') is not None, 'diff': bool(kw.get('diff')),
                                                         'test': os.environ.get('PYTEST_CURRENT_TEST')})
        except Exception as e:  # pragma: no cover
            REPORT['cause'].setdefault('errors', []).append(repr(e))
        return cause
    causes.detect_changing_cause = detect_changing_cause  # type: ignore[assignment]

    orig_diff = diffs.diff

    def diff(a: Any, b: Any, *args: Any, **kw: Any) -> Any:
        out = orig_diff(a, b, *args, **kw)
        try:
            if not args and not kw and isinstance(a, (dict, type(None))) and isinstance(b, (dict, type(None))):
                json.dumps(a), json.dumps(b)       # only plain JSON documents are judged
                REPORT['diff']['evaluations'] += 1
                a0, b0 = copy.deepcopy(a), copy.deepcopy(b)
                rebuilt = apply_diff(list(out), a0)
                if not json_eq_mod_null(rebuilt, b0):
                    if _typed(rebuilt) != _typed(b0) and rebuilt == b0:
                        REPORT['diff']['known_bool_int'] += 1        # the recorded known finding of C04
                    elif len(REPORT['diff']['disagreements']) < 20:
                        REPORT['diff']['disagreements'].append({'a': a0, 'b': b0, 'diff': [list(map(str, d)) for d in out], 'test': os.environ.get('PYTEST_CURRENT_TEST')})
        except (TypeError, ValueError):
            pass
        except Exception as e:  # pragma: no cover
            REPORT['diff'].setdefault('errors', []).append(repr(e))
        return out
    diffs.diff = diff  # type: ignore[assignment]


def pytest_configure(config: Any) -> None:
    _install()


def pytest_sessionfinish(session: Any, exitstatus: int) -> None:
    path = os.environ.get('KV_CONTRACT_REPORT')
    if path:
        REPORT['pytest_exitstatus'] = int(exitstatus)
        with open(path, 'w') as f:
            json.dump(REPORT, f, indent=1, default=str)

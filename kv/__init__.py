"""kv: runtime-monitoring machinery for the kopf properties (see /verif/DESIGN.md)."""

"""
C15 -- exactly the handlers whose declared criteria hold are invoked.

Reference: an executable reading of docs/filters.rst (this file). Handlers are declared through the real decorators, real
cause objects are built, and registry.get_handlers()/prematch()/requires_finalizer() are compared with the reference.
End to end: whole operator; the set of handlers invoked per handled cause == reference set; objects matched by no handler
receive zero requests; one function registered twice under one id runs once.
"""
from __future__ import annotations

import hashlib
import itertools
import json
import logging
import random
from typing import Any

ID = 'C15'
LEVEL = 'exploration'
STALL = True
TIMEOUT_PER_CASE = 120.0
TECHNIQUE = ('runtime monitoring: reference-model oracle (executable reading of docs/filters.rst) against the real decorators + registries on real cause '
             'objects, bounded-exhaustive over a small criteria alphabet, and against the handler invocation sets recorded in whole-operator runs')
LEVEL_TEXT = ('The field/value/old/new block (criteria alphabet {unset, literal, falsy literals 0 and "", PRESENT, ABSENT, callback} x old/new field states '
              '{absent, x, y, 0, ""}) and the metadata block are enumerated completely in both tiers (exhaustive: true for those blocks); random multi-handler '
              'registries (shared functions/ids, mixed criteria, all handler kinds) and closed-loop runs are sampled. The overall level stays exploration because '
              'the criteria language (callbacks, arbitrary fields) is unbounded.')
LEVEL_NOTE = ('The reference is my reading of docs/filters.rst; where the documentation is silent (on.field handlers in non-update causes) no expectation is '
              'generated. Known findings are classified by mechanism.')
RULE = ("blocks: (a) update/field handlers: 70 value|old|new declarations x 25 (old,new) field states; (b) other kinds: 6 kinds x 7 value criteria x 25 states; "
        "(c) labels x annotations criteria x states x kinds; (d) when/deleted/initial; then random registries of 3-8 declarations. non-trivial = the declaration has "
        "at least one criterion; distinct = (declaration, state). loop: per handled cause, invoked set vs reference set")
ASSUMPTIONS = ["docs/filters.rst is the specification", "fake API server for the closed-loop part"]
GATES = {'block_update': 3000, 'block_other': 1000, 'block_meta': 400, 'random_registries': 50, 'loop_causes_compared': 50, 'stealth_objects': 1, 'dedupe_cases': 10}

ABSENT = '<absent>'
VALS = [None, 'x', '$PRESENT', '$ABSENT', '$CB', 0, '']
OLDNEW = [None, 'x', 'y', '$PRESENT', '$ABSENT', '$CB', 0, '']
STATES = [ABSENT, 'x', 'y', 0, '']


def cb_value(v: Any, **_: Any) -> bool:
    """The value callback of the alphabet: true for 'x' and 0; receives None for an absent value (docs)."""
    return v == 'x' or (v == 0 and v is not False and v is not None and not isinstance(v, str))


def when_g1(spec: Any, **_: Any) -> bool:
    return spec.get('g') == 1


def crit(c: Any, v: Any) -> bool:
    if c is None:
        return True
    if c == '$PRESENT':
        return v is not ABSENT
    if c == '$ABSENT':
        return v is ABSENT
    if c == '$CB':
        return cb_value(None if v is ABSENT else v)
    return v is not ABSENT and type(v) is type(c) and v == c


def ref_meta(pattern: dict[str, Any] | None, content: dict[str, str]) -> bool:
    for k, c in (pattern or {}).items():
        if not crit(c, content.get(k, ABSENT)):
            return False
    return True


def ref_match(decl: dict[str, Any], cause_kind: str, state: dict[str, Any]) -> bool | None:
    """None = the documentation does not say (no expectation)."""
    kind = decl['kind']
    # cause kind
    if kind in ('create', 'update', 'delete'):
        if cause_kind != kind:
            return False
    elif kind == 'resume':
        if not state.get('initial'):
            return False
        if state.get('deleting') and not decl.get('deleted'):
            return False
    elif kind == 'field':
        if cause_kind != 'update':
            return None if decl.get('field') else False
    if not ref_meta(decl.get('labels'), state.get('labels') or {}):
        return False
    if not ref_meta(decl.get('annotations'), state.get('annotations') or {}):
        return False
    if decl.get('field'):
        new_f = state.get('new_f', ABSENT)
        old_f = state.get('old_f', ABSENT)
        if kind in ('update', 'field'):
            affected = (old_f is ABSENT) != (new_f is ABSENT) or old_f != new_f or type(old_f) is not type(new_f)
            if not affected:
                return False
            if decl.get('value') is not None:
                if not (crit(decl['value'], old_f) or crit(decl['value'], new_f)):
                    return False
            if not crit(decl.get('old'), old_f) or not crit(decl.get('new'), new_f):
                return False
        else:
            v = decl.get('value')
            if not crit(v if v is not None else '$PRESENT', new_f):
                return False
    if decl.get('when') and not (state.get('g') == 1):
        return False
    return True


def decode(c: Any) -> Any:
    import kopf
    if c == '$PRESENT':
        return kopf.PRESENT
    if c == '$ABSENT':
        return kopf.ABSENT
    if c == '$CB':
        return cb_value
    return c


class Harness:
    def __init__(self) -> None:
        import kopf
        from kopf._cogs.structs import references
        self.kopf = kopf
        self.resource = references.Resource(group='kopf.dev', version='v1', plural='kopfexamples', kind='KopfExample', singular='kopfexample',
                                            shortcuts=frozenset(), categories=frozenset(), subresources=frozenset(), namespaced=True, preferred=True,
                                            verbs=frozenset(['list', 'watch', 'patch']))
        self.fns: dict[int, Any] = {}

    def fn(self, i: int) -> Any:
        if i not in self.fns:
            async def handler(**_: Any) -> None:
                return None
            handler.__name__ = handler.__qualname__ = f'fn{i}'
            self.fns[i] = handler
        return self.fns[i]

    def registry(self, decls: list[dict[str, Any]]) -> Any:
        kopf = self.kopf
        reg = kopf.OperatorRegistry()
        for d in decls:
            kw: dict[str, Any] = {'id': d['id'], 'registry': reg}
            if d.get('labels'):
                kw['labels'] = {k: decode(v) for k, v in d['labels'].items()}
            if d.get('annotations'):
                kw['annotations'] = {k: decode(v) for k, v in d['annotations'].items()}
            if d.get('field'):
                kw['field'] = d['field']
            for k in ('value', 'old', 'new'):
                if d.get(k) is not None:
                    kw[k] = decode(d[k])
            if d.get('when'):
                kw['when'] = when_g1
            if d['kind'] == 'resume' and d.get('deleted'):
                kw['deleted'] = True
            if d['kind'] in ('daemon', 'timer'):
                deco = getattr(kopf, d['kind'])
                if d['kind'] == 'timer':
                    kw['interval'] = 1.0
            elif d['kind'] == 'event':
                deco = kopf.on.event
            else:
                deco = getattr(kopf.on, d['kind'])
            deco('kopfexamples', **kw)(self.fn(d.get('fn', 0)))
            sub = {'event': reg._watching, 'daemon': reg._spawning, 'timer': reg._spawning}.get(d['kind'], reg._changing)
            d['_rid'] = sub._handlers[-1].id      # the id the framework really gave to this declaration
            d['_h'] = sub._handlers[-1]
        return reg

    def body(self, state: dict[str, Any], which: str = 'new') -> dict[str, Any]:
        raw: dict[str, Any] = {'apiVersion': 'kopf.dev/v1', 'kind': 'KopfExample', 'metadata': {'name': 'n', 'namespace': 'ns', 'uid': 'u'}, 'spec': {'g': state.get('g', 0)}}
        f = state.get(f'{which}_f', ABSENT)
        if f is not ABSENT:
            raw['spec']['f'] = f
        if state.get('labels'):
            raw['metadata']['labels'] = dict(state['labels'])
        if state.get('annotations'):
            raw['metadata']['annotations'] = dict(state['annotations'])
        if state.get('deleting'):
            raw['metadata']['deletionTimestamp'] = '2030-01-01T00:00:00Z'
            raw['metadata']['finalizers'] = ['kopf.zalando.org/KopfFinalizerMarker']
        return raw

    def essence(self, raw: dict[str, Any]) -> dict[str, Any]:
        e: dict[str, Any] = {'spec': json.loads(json.dumps(raw['spec']))}
        m = {k: dict(raw['metadata'][k]) for k in ('labels', 'annotations') if raw['metadata'].get(k)}
        if m:
            e['metadata'] = m
        return e

    def select(self, reg: Any, cause_kind: str, state: dict[str, Any]) -> dict[str, list[str]]:
        from kopf._cogs.structs import bodies, diffs, ephemera, patches
        from kopf._core.intents import causes
        raw = self.body(state, 'new')
        body = bodies.Body(raw)
        logger = logging.getLogger('kv')
        out: dict[str, Any] = {}
        if cause_kind in ('create', 'update', 'delete', 'resume'):
            new = self.essence(raw)
            old = None if cause_kind == 'create' else self.essence(self.body(state, 'old'))
            cause = causes.ChangingCause(logger=logger, indices={}, memo=ephemera.Memo(), resource=self.resource, patch=patches.Patch(), body=body,
                                         initial=bool(state.get('initial')), reason=causes.Reason(cause_kind), diff=diffs.diff(old, new), old=old, new=new)
            out['handlers'] = list(reg._changing.get_handlers(cause))
            out['prematch'] = reg._changing.prematch(cause)
        elif cause_kind == 'event':
            cause = causes.WatchingCause(logger=logger, indices={}, memo=ephemera.Memo(), resource=self.resource, patch=patches.Patch(), body=body,
                                         type='MODIFIED', event={'type': 'MODIFIED', 'object': raw})
            out['handlers'] = list(reg._watching.get_handlers(cause))
        else:
            cause = causes.SpawningCause(logger=logger, indices={}, memo=ephemera.Memo(), resource=self.resource, patch=patches.Patch(), body=body, reset=False)
            out['handlers'] = list(reg._spawning.get_handlers(cause))
        return out


def full_id(d: dict[str, Any]) -> str:
    return d.get('_rid') or d['id']


def gen_cases(tier: str, seed: int):
    rng = random.Random(f'C15-{seed}')
    cases: list[dict[str, Any]] = [{'name': 'block-update', 'mode': 'block', 'block': 'update'}, {'name': 'block-other', 'mode': 'block', 'block': 'other'},
                                   {'name': 'block-meta', 'mode': 'block', 'block': 'meta'}, {'name': 'block-misc', 'mode': 'block', 'block': 'misc'}]
    nr = 300 if tier == 'quick' else 6000
    for i in range(nr):
        cases.append({'name': f'rand{i}', 'mode': 'random', 'seed': rng.randrange(1 << 30), 'n': 40})
    nl = 400 if tier == 'quick' else 12000
    for i in range(nl):
        cases.append({'name': f'loop{i}', 'mode': 'loop', 'seed': rng.randrange(1 << 30)})
    return cases


def classify(decl: dict[str, Any], cause_kind: str, state: dict[str, Any], got: bool, want: bool) -> str:
    kind = decl['kind']
    if decl.get('field') and kind in ('create', 'delete', 'resume') and got and not want:
        old_f, new_f = state.get('old_f', ABSENT), state.get('new_f', ABSENT)
        if cause_kind == 'create':
            old_f = ABSENT
        v = decl.get('value')
        # the code evaluates value= against [new, old] for every changing cause, although only updates have two states
        if crit(v if v is not None else '$PRESENT', old_f) or (v == '$CB'):
            return 'value-criterion-sees-old-state-in-non-update-cause'
    if decl.get('field') and v_is_cb(decl) and got != want:
        return 'value-callback-gets-unset-token'
    return 'selection-mismatch'


def v_is_cb(decl: dict[str, Any]) -> bool:
    return any(decl.get(k) == '$CB' for k in ('value', 'old', 'new'))


def compare(h: Harness, decls: list[dict[str, Any]], cause_kind: str, state: dict[str, Any], viol: list[dict[str, Any]]) -> None:
    """Per declaration: selected by the real registry <=> selected by the reference (after de-duplication by function+id)."""
    reg = h.registry(decls)
    got_handlers = h.select(reg, cause_kind, state)['handlers']
    registry_kind = {'create': 'changing', 'update': 'changing', 'delete': 'changing', 'resume': 'changing', 'field': 'changing',
                     'event': 'watching', 'daemon': 'spawning', 'timer': 'spawning'}
    target = 'changing' if cause_kind in ('create', 'update', 'delete', 'resume') else 'watching' if cause_kind == 'event' else 'spawning'
    got_idx = []
    for hd in got_handlers:
        got_idx.append(next(i for i, d in enumerate(decls) if d.get('_h') is hd))
    want_idx: list[int] = []
    unknown: set[int] = set()
    seen = set()
    for i, d in enumerate(decls):
        if registry_kind[d['kind']] != target:
            continue
        m = ref_match(d, cause_kind, state)
        if m is None:
            unknown.add(i)
            continue
        key = (d.get('fn', 0), full_id(d))
        if m:
            if key in seen:
                continue
            seen.add(key)
            want_idx.append(i)
    # a declaration the reference does not select may still "use up" the (function, id) slot in the real registry: compare per index
    got_known = [i for i in got_idx if i not in unknown]
    extra = [i for i in got_known if i not in want_idx and ref_match(decls[i], cause_kind, state) is False]
    missing = [i for i in want_idx if i not in got_known]
    # a wanted declaration may be legitimately shadowed by an (unexpectedly selected) twin with the same function and id
    shadowed = [i for i in missing if any((decls[j].get('fn', 0), full_id(decls[j])) == (decls[i].get('fn', 0), full_id(decls[i])) for j in extra)]
    missing = [i for i in missing if i not in shadowed]
    for i in extra + missing:
        d = decls[i]
        mech = classify(d, cause_kind, state, i in extra, i not in extra)
        shown = {k: v for k, v in d.items() if k != '_h'}
        viol.append({'mech': mech, 'msg': f"{'invoked although criteria do not hold' if i in extra else 'NOT invoked although criteria hold'}: {shown} on a {cause_kind} cause with "
                     f"state {state}", 'witness': {'declarations': [{k: v for k, v in x.items() if k != '_h'} for x in decls], 'got': got_idx, 'want': want_idx}})
    if not extra and not missing and not shadowed:
        order_got = [i for i in got_known]
        if order_got != want_idx:
            dup = len(set(order_got)) != len(order_got)
            viol.append({'mech': 'selection-order-or-duplicates', 'msg': f'selected declarations {order_got}, expected {want_idx}' + (' (duplicates)' if dup else ''),
                         'witness': {'declarations': [{k: v for k, v in x.items() if k != '_h'} for x in decls], 'state': state}})


def run_case(case: dict[str, Any]) -> dict[str, Any]:
    if case['mode'] == 'loop':
        return run_loop(case)
    h = Harness()
    viol: list[dict[str, Any]] = []
    cov: dict[str, int] = {}
    sig = hashlib.sha1()
    sample = None
    if case['mode'] == 'block':
        n = 0
        if case['block'] == 'update':
            decls_list = [{'value': v} for v in VALS] + [{'old': o, 'new': nw} for o in OLDNEW for nw in OLDNEW if not (o is None and nw is None)]
            for kind in ('update', 'field'):
                for dv in decls_list:
                    for old_f in STATES:
                        for new_f in STATES:
                            d = dict(dv, kind=kind, id='h', field='spec.f')
                            compare(h, [d], 'update', {'old_f': old_f, 'new_f': new_f}, viol)
                            n += 1
            cov['block_update'] = n
        elif case['block'] == 'other':
            for kind in ('create', 'delete', 'resume', 'event', 'daemon', 'timer'):
                for v in VALS:
                    for old_f in STATES:
                        for new_f in STATES:
                            d = {'kind': kind, 'id': 'h', 'field': 'spec.f', 'value': v}
                            ck = kind if kind in ('create', 'delete', 'resume', 'event') else 'spawn'
                            st = {'old_f': old_f, 'new_f': new_f, 'initial': kind == 'resume', 'deleting': kind == 'delete'}
                            if kind == 'resume':
                                d['deleted'] = False
                            compare(h, [d], ck, st, viol)
                            n += 1
            cov['block_other'] = n
        elif case['block'] == 'meta':
            lcrit = [None, {'l': 'a'}, {'l': '$PRESENT'}, {'l': '$ABSENT'}, {'l': '$CB'}, {'l': ''}, {'l': 'a', 'm': '$ABSENT'}]
            acrit = [None, {'a/b': '$PRESENT'}, {'a/b': 'v'}]
            lstates = [{}, {'l': 'a'}, {'l': 'b'}, {'l': ''}, {'l': 'x'}, {'l': 'a', 'm': '1'}]
            astates = [{}, {'a/b': 'v'}, {'a/b': ''}]
            for kind in ('create', 'update', 'delete', 'event', 'daemon'):
                for lc in lcrit:
                    for ac in acrit:
                        for ls in lstates:
                            for as_ in astates:
                                d = {'kind': kind, 'id': 'h', 'labels': lc, 'annotations': ac}
                                ck = kind if kind in ('create', 'update', 'delete', 'event') else 'spawn'
                                compare(h, [d], ck, {'labels': ls, 'annotations': as_, 'old_f': 'x', 'new_f': 'y', 'deleting': kind == 'delete'}, viol)
                                n += 1
            cov['block_meta'] = n
        else:
            # when=, resume/initial/deleted, dedupe
            for kind in ('create', 'update', 'delete', 'resume', 'event', 'timer'):
                for g in (0, 1):
                    for when in (False, True):
                        for initial in (False, True):
                            for deleting in (False, True):
                                for deleted in (False, True):
                                    d = {'kind': kind, 'id': 'h', 'when': when, 'deleted': deleted}
                                    for ck in (('create', 'update', 'delete') if kind == 'resume' else (kind,)):
                                        ck2 = ck if ck in ('create', 'update', 'delete', 'resume', 'event') else 'spawn'
                                        compare(h, [d], ck2 if kind != 'resume' else ck, {'g': g, 'initial': initial, 'deleting': deleting or ck == 'delete', 'old_f': 'x', 'new_f': 'y'}, viol)
                                        n += 1
            # one function registered twice under one id -> once; under two ids -> twice; two functions one id -> both
            for kind in ('create', 'update', 'delete'):
                for same_fn in (True, False):
                    for same_id in (True, False):
                        decls = [{'kind': kind, 'id': 'dup', 'fn': 1}, {'kind': kind, 'id': 'dup' if same_id else 'dup2', 'fn': 1 if same_fn else 2}]
                        compare(h, decls, kind, {'old_f': 'x', 'new_f': 'y', 'deleting': kind == 'delete'}, viol)
                        cov['dedupe_cases'] = cov.get('dedupe_cases', 0) + 1
                        n += 1
            # create+resume pair of the same function and id on an initial create cause: once
            decls = [{'kind': 'create', 'id': 'both', 'fn': 3}, {'kind': 'resume', 'id': 'both', 'fn': 3}]
            compare(h, decls, 'create', {'initial': True, 'new_f': 'x'}, viol)
            cov['dedupe_cases'] = cov.get('dedupe_cases', 0) + 1
            cov['block_misc'] = n
        sig.update(case['block'].encode())
        sample = {'block': case['block'], 'combinations': n}
        return {'violations': viol, 'cov': cov, 'sig': case['block'], 'nontrivial': True, 'sample': sample, 'info': {'exhaustive_block': True}}
    # random registries
    rng = random.Random(case['seed'])
    for i in range(case['n']):
        decls = []
        for j in range(rng.randint(3, 8)):
            kind = rng.choice(['create', 'update', 'update', 'delete', 'resume', 'field', 'event', 'daemon', 'timer'])
            d: dict[str, Any] = {'kind': kind, 'id': f'u{j}', 'fn': rng.randint(0, 2)}
            if decls and rng.random() < 0.15:
                # deliberately the same id (and maybe the same function) as an earlier declaration of the same kind
                prev = rng.choice(decls)
                d = {'kind': prev['kind'], 'id': prev['id'], 'fn': rng.choice([prev.get('fn', 0), 2])}
                kind = prev['kind']
                if prev.get('field'):
                    d['field'] = prev['field']
                    d['value'] = rng.choice(VALS)
                decls.append(d)
                continue
            if rng.random() < 0.5:
                d['labels'] = rng.choice([{'l': 'a'}, {'l': '$PRESENT'}, {'l': '$ABSENT'}, {'l': '$CB'}])
            if rng.random() < 0.2:
                d['annotations'] = rng.choice([{'a/b': '$PRESENT'}, {'a/b': 'v'}])
            if rng.random() < 0.6 or kind == 'field':
                d['field'] = 'spec.f'
                if kind in ('update', 'field') and rng.random() < 0.5:
                    d['old'], d['new'] = rng.choice(OLDNEW), rng.choice(OLDNEW)
                else:
                    d['value'] = rng.choice(VALS)
            if rng.random() < 0.3:
                d['when'] = True
            if kind == 'resume':
                d['deleted'] = rng.random() < 0.5
            decls.append(d)
        cause_kind = rng.choice(['create', 'update', 'update', 'delete', 'event', 'spawn'])
        state = {'old_f': rng.choice(STATES), 'new_f': rng.choice(STATES), 'g': rng.choice([0, 1]), 'initial': rng.random() < 0.4,
                 'deleting': cause_kind == 'delete', 'labels': rng.choice([{}, {'l': 'a'}, {'l': 'b'}, {'l': 'x'}]), 'annotations': rng.choice([{}, {'a/b': 'v'}])}
        try:
            compare(h, decls, cause_kind, state, viol)
        except TypeError:
            continue   # the decorators reject value= together with old=/new= etc.
        cov['random_registries'] = cov.get('random_registries', 0) + 1
        clean = [{k: v for k, v in x.items() if k != '_h'} for x in decls]
        sig.update(json.dumps([clean, cause_kind, state], sort_keys=True, default=str).encode())
        if sample is None:
            sample = {'declarations': clean, 'cause': cause_kind, 'state': state}
    return {'violations': viol, 'cov': cov, 'sig': sig.hexdigest()[:16], 'nontrivial': True, 'sample': sample}


# ------------------------------------------------------------------------------------------
def run_loop(case: dict[str, Any]) -> dict[str, Any]:
    from kv import contracts
    from kv.monitors import Stall
    from kv.oracles import Index, trace_lines
    from kv.world import run_world

    contracts.install_cause_contract()
    contracts.reset()
    Stall.take_hits()
    rng = random.Random(case['seed'])
    decls: list[dict[str, Any]] = []
    for j in range(rng.randint(2, 6)):
        kind = rng.choice(['create', 'update', 'update', 'delete'])
        d: dict[str, Any] = {'kind': kind, 'id': f'h{j}'}
        if rng.random() < 0.6:
            d['labels'] = rng.choice([{'l': 'a'}, {'l': '$PRESENT'}, {'l': '$ABSENT'}])
        if rng.random() < 0.5 and kind == 'update':
            d['field'] = 'spec.f'
            if rng.random() < 0.5:
                d['old'], d['new'] = rng.choice([None, 'x', '$ABSENT', '$PRESENT']), rng.choice([None, 'y', '$ABSENT', '$PRESENT', 0])
                if d['old'] is None and d['new'] is None:
                    d['new'] = 'y'
            else:
                d['value'] = rng.choice([None, 'x', '$PRESENT'])
        if rng.random() < 0.25:
            d['when'] = True
        decls.append(d)
    rr = random.Random(rng.random())
    restart = rr.random() < 0.4
    if restart:
        # resume handlers with criteria, and an operator restart: they run for the objects met at the start whose criteria hold THEN (cause kind:
        # resuming), not for a later change that makes the criteria hold
        for j in range(rr.randint(1, 2)):
            d2: dict[str, Any] = {'kind': 'resume', 'id': f'r{j}'}
            if rr.random() < 0.8:
                d2['labels'] = rr.choice([{'l': 'a'}, {'l': '$PRESENT'}, {'l': '$ABSENT'}, {'l': 'b'}])
            if rr.random() < 0.3:
                d2['when'] = True
            decls.append(d2)
    if rng.random() < 0.5:
        # the same function under the same id twice, with different (both satisfiable) filters
        decls.append({'kind': 'update', 'id': 'dup', 'fnname': 'dup'})
        decls.append({'kind': 'update', 'id': 'dup', 'fnname': 'dup', 'labels': {'l': '$PRESENT'}})
    specs = []
    for d in decls:
        opts: dict[str, Any] = {}
        for k in ('labels', 'annotations'):
            if d.get(k):
                opts[k] = dict(d[k])
        if d.get('field'):
            opts['field'] = d['field']
        for k in ('value', 'old', 'new'):
            if d.get(k) is not None:
                opts[k] = d[k]
        if d.get('when'):
            opts['when'] = {'spec_eq': ['g', 1]}
        specs.append({'kind': d['kind'], 'id': d['id'], 'opts': opts, 'share_fn': d.get('fnname')})
    # timeline: two objects; one may match nothing at all (stealth)
    tl: list[list[Any]] = [[0, 'start', 'op1']]
    lab = lambda: rng.choice([{}, {'l': 'a'}, {'l': 'b'}])
    tl.append([1.0, 'create', 'o1', {'spec': {'g': rng.choice([0, 1]), 'f': rng.choice(['x', 'y'])}, 'metadata': {'labels': lab()}}])
    tl.append([1.5, 'create', 'o2', {'spec': {'g': 0}, 'metadata': {'labels': {}}}])
    t = 3.0
    for k in range(rng.randint(2, 6)):
        t = round(t + rng.choice([2.0, 3.0]), 3)
        nm = rng.choice(['o1', 'o1', 'o2'])
        patch = rng.choice([{'spec': {'f': rng.choice(['x', 'y', None, 0])}}, {'spec': {'g': rng.choice([0, 1])}}, {'metadata': {'labels': {'l': rng.choice(['a', 'b', None])}}},
                            {'spec': {'other': k}}])
        tl.append([t, 'edit', nm, patch])
    if rng.random() < 0.5:
        tl.append([round(t + 3, 3), 'delete', 'o1'])
    if restart:
        # the restart falls between two edits; afterwards a quiet stretch, then edits that may turn the resume handlers' criteria true
        t_r = round(rr.choice([5.5, 8.5, 11.5]), 3)
        tl += [[t_r, 'stop_wait', 'op1'], [round(t_r + 0.4, 3), 'start', 'op2']]
        t2 = max(t, t_r) + 6.0
        for k in range(rr.randint(1, 3)):
            t2 = round(t2 + rr.choice([3.0, 5.0]), 3)
            tl.append([t2, 'edit', rr.choice(['o1', 'o2']), rr.choice([{'metadata': {'labels': {'l': rr.choice(['a', 'b', None])}}}, {'spec': {'g': rr.choice([0, 1])}}, {'spec': {'other': 100 + k}}])])
        tl.sort(key=lambda x: x[0])
    desc = {'seed': case['seed'], 'handlers': specs, 'timeline': tl, 'quiet': 8.0, 'horizon': 200.0, 'lifecycle': 'all_at_once',
            'settings': {'queueing__idle_timeout': 1.0, 'persistence__consistency_timeout': 1.0}}
    w = run_world_shared(desc)
    ix = Index(w)
    viol: list[dict[str, Any]] = []
    for s in Stall.take_hits():
        viol.append({'mech': 'stall', 'msg': 'event loop stalled', 'witness': s})
    detects = [d for d in contracts.SINK if d['k'] == 'detect']
    compared = 0
    by_uid: dict[str, list[dict[str, Any]]] = {}
    for d in detects:
        by_uid.setdefault(d['uid'], []).append(d)
    for uid, ds in by_uid.items():
        for i, d in enumerate(ds):
            if d['reason'] not in ('create', 'update', 'delete'):
                continue
            g_next = ds[i + 1]['g'] if i + 1 < len(ds) else 1 << 60
            invoked = [c['h'] for c in ix.calls if c['uid'] == uid and d['g'] < c['g'] < g_next and ix.specs.get(c['h'], {}).get('kind') != 'resume']
            body = w.body_at(uid, d['rv']) or {}
            labels = (body.get('metadata') or {}).get('labels') or {}
            old_f = ((d.get('old') or {}).get('spec') or {}).get('f', ABSENT) if d.get('old') is not None else ABSENT
            new_f = ((d.get('new') or {}).get('spec') or {}).get('f', ABSENT)
            state = {'labels': labels, 'old_f': old_f, 'new_f': new_f, 'g': (body.get('spec') or {}).get('g'), 'deleting': d['deleting']}
            # the finalizer cycle: when the finalizer is being added/removed no handler runs in that pass (documented); skip passes without calls
            # that are followed by the same cause again
            want = []
            seen = set()
            for dd in decls:
                m = ref_match(dd, d['reason'], state)
                fid = dd['id']        # the recorder reports the declared id (without the field suffix)
                key = (dd.get('fnname', fid), fid)
                if m and key not in seen:
                    seen.add(key)
                    want.append(fid)
            if not invoked and i + 1 < len(ds) and ds[i + 1]['reason'] == d['reason']:
                continue
            if d['reason'] == 'delete' and not d['has_finalizer']:
                continue
            compared += 1
            if sorted(invoked) != sorted(want):
                viol.append({'mech': 'invoked-set-mismatch', 'msg': f"{uid} {d['reason']} (rv={d['rv']}): invoked {invoked}, the declared criteria select {want}; state {state}",
                             'witness': {'declarations': decls}})
    # resume handlers: the cause kind "resuming" holds at the object's first processing after the start of an operator process only. At the boundary: the
    # FIRST invocation of a resume handler for an object never comes after the object has been at rest -- no request of this operator for it, none of its
    # handlers running, no progress record on it -- for seconds after this operator first met it.
    from kv.oracles import operator_feed
    resumes_checked = 0
    for inc_name in w.incs:
        feed = operator_feed(w, inc_name)
        for uid in ix.uids:
            evs = [e for e in feed if e['uid'] == uid]
            if not evs:
                continue
            rcalls = sorted((c for c in ix.calls if c['inc'] == inc_name and c['uid'] == uid and ix.specs.get(c['h'], {}).get('kind') == 'resume'), key=lambda c: c['g'])
            firsts: dict[str, dict[str, Any]] = {}
            for c in rcalls:
                firsts.setdefault(c['h'], c)
            for h, c0 in firsts.items():
                resumes_checked += 1
                trig = [e for e in evs if e['t'] <= c0['t'] + 1e-9]
                t_ev = trig[-1]['t'] if trig else evs[0]['t']
                acts = [evs[0]['t']]
                acts += [r.t for r in w.requests if r.client == inc_name and getattr(r, 'landed_uid', None) == uid and r.kind == 'patch' and r.t < t_ev - 1e-9]
                acts += [x['t'] for x in w.events if x.get('k') in ('call', 'ret') and x.get('inc') == inc_name and x.get('uid') == uid and x['t'] < t_ev - 1e-9]
                rest = t_ev - max(acts)
                before = w.body_at(uid, trig[-1]['rv'] - 1) if trig else None
                pending = before is not None and any(ix.sv.record(before, hh) is not None for hh in ix.specs)
                # An object that matched NO handler so far is left alone entirely (stealth: not even remembered as handled), and its resuming comes with its
                # first handled change -- that is the framework's reading of "first processing". So the rest only counts after a pass in which some
                # handler's standing criteria (labels, annotations, when; declarations without field criteria only) held for the object.
                def prematched(dx: dict[str, Any]) -> bool:
                    b = w.body_at(uid, dx['rv']) or {}
                    st = {'labels': ((b.get('metadata') or {}).get('labels') or {}), 'g': (b.get('spec') or {}).get('g'), 'old_f': 'q',
                          'new_f': (b.get('spec') or {}).get('f', ABSENT), 'deleting': False}
                    return any(ref_match({k: v2 for k, v2 in dd.items() if k not in ('old', 'new', 'value', 'field', 'kind')} | {'kind': 'event'}, 'event', st)
                               for dd in decls if not dd.get('field'))
                real_pass = any(dx['inc'] == inc_name and dx['uid'] == uid and dx['t'] <= t_ev - 2.5 and dx['rv'] and str(dx['rv']).isdigit() and prematched(dx) for dx in detects)
                if rest >= 2.5 and not pending and len(trig) > 1 and real_pass:
                    viol.append({'mech': 'resume-handler-after-first-episode', 'msg': f"{h} first ran for {uid} at t={c0['t']} (reason given: {c0.get('reason')}), triggered by what {inc_name} was shown at t={t_ev}, "
                                         f"although {inc_name} had met the object at t={evs[0]['t']} and the object had been at rest for {round(rest, 3)}s since", 'witness': {'declarations': decls}})
                    break
    # stealth: an object which never matched anything gets zero requests
    stealth = 0
    for uid in ix.uids:
        ever = False
        for v in w.history[uid]:
            b = v['body']
            st = {'labels': (b['metadata'].get('labels') or {}), 'g': (b.get('spec') or {}).get('g'), 'old_f': 'q', 'new_f': (b.get('spec') or {}).get('f', ABSENT), 'deleting': False}
            for dd in decls:
                # prematch: everything except the change criteria
                pre = dict(dd)
                pre.pop('old', None); pre.pop('new', None); pre.pop('value', None)
                if dd.get('field') and st['new_f'] is ABSENT:
                    pass
                chk = {k: v2 for k, v2 in pre.items() if k != 'field'}
                if ref_match(dict(chk, kind='event'), 'event', st):
                    ever = True
        if not ever:
            stealth += 1
            touched = [r for r in w.requests if r.kind == 'patch' and r.landed_uid == uid and r.client.startswith('op')]
            if touched:
                viol.append({'mech': 'stealth-broken', 'msg': f'{uid} never matched any handler but the operator patched it: {touched[0].brief()}', 'witness': {'declarations': decls}})
    sig = hashlib.sha1(json.dumps([decls, tl], sort_keys=True, default=str).encode()).hexdigest()[:16]
    return {'violations': viol, 'cov': {'loop_causes_compared': compared, 'stealth_objects': stealth, 'first_resume_invocations_checked': resumes_checked}, 'sig': sig, 'nontrivial': compared > 0,
            'sample': {'declarations': decls, 'timeline': tl} if case['name'] == 'loop0' else None, 'trace': trace_lines(w) if case.get('_verbose') else None}


def run_world_shared(desc: dict[str, Any]) -> Any:
    """Like world.run_world, but specs with the same 'share_fn' are registered with ONE function object (dedupe by function+id)."""
    from kv import recorder, world
    orig = recorder._register
    shared: dict[str, Any] = {}

    def _register(rec: Any, registry: Any, spec: dict[str, Any]) -> None:
        import kopf
        name = spec.get('share_fn')
        if not name:
            return orig(rec, registry, spec)
        hid = spec['id']
        if name not in shared:
            async def fn(**kw: Any) -> Any:
                call = rec.call(hid, spec['kind'], kw)
                rec.ret(call, 'ok')
            fn.__name__ = fn.__qualname__ = hid
            shared[name] = fn
        rec.scripts.setdefault(hid, [])
        getattr(kopf.on, spec['kind'])('kopfexamples', id=hid, registry=registry, **recorder._decode_opts(spec.get('opts', {})))(shared[name])
    recorder._register = _register  # type: ignore[assignment]
    try:
        return world.run_world(desc)
    finally:
        recorder._register = orig  # type: ignore[assignment]

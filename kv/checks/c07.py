"""
C07 -- change handlers never run on a view older than the operator's own last write (until echo or timeout);
raw-event handlers and daemons are not delayed by that barrier.
"""
from __future__ import annotations

import hashlib
import random
from typing import Any

ID = 'C07'
LEVEL = 'exploration'
STALL = True
TIMEOUT_PER_CASE = 120.0
TECHNIQUE = ('runtime monitoring: offline ordering oracle over recorded handler invocations (view version, virtual time), the operator\'s acknowledged writes and the '
             'fake API server\'s per-stream delivery log, with scripted FIFO echo lag below/at/above the consistency timeout and foreign events in between')
LEVEL_TEXT = ('Held on the explored schedules: echo lag in {0, 0.5, 0.99, 1.0, 1.01, 1.5, 3} x consistency_timeout, foreign status/spec writes before and after the own patch '
              'in version order, request latency, idle_timeout below and above the consistency timeout, timeouts {0.5, 2, 5} and 0 (barrier off). The deciding '
              'situations (barrier released by echo / by timeout / interrupted by foreign events) are all counted and gated. Lag values are sampled from a grid.')
LEVEL_NOTE = ('The barrier is judged per (incarnation, object) against writes acknowledged to that incarnation, separately for the writes of the object\'s worker '
              '(must hold) and for patches made on behalf of timers/daemons from their own tasks (known finding: the worker is not told about them). '
              'Virtual time makes "t >= tp + timeout" exact to the microsecond.')
RULE = ("scenarios: 1-2 objects, 2-4 change handlers with temporary errors/slow bodies (so that several own writes incl. touches happen per cycle), an @on.event probe, optional timer delivering a result per tick, "
        "foreign status and spec writes at instants around the own writes; lag/latency/timeouts from grids; non-trivial = at least one handler call happened after an own "
        "write of the same incarnation; distinct = hash of (handler, view-vs-own-write relation, release reason) sequence")
ASSUMPTIONS = ["watch events are delivered in version order per stream (FIFO lag)", "fake API server semantics"]
GATES = {'calls_after_own_write': 100, 'released_by_echo': 20, 'released_by_timeout': 5, 'foreign_events_during_barrier': 10, 'event_probe_calls': 100,
         'calls_after_background_write': 20}


def rnd_desc(rng: random.Random, i: int) -> dict[str, Any]:
    ct = rng.choice([0.5, 2.0, 2.0, 5.0, 0])
    idle = rng.choice([0.2, 1.0, 10.0])
    base = ct or 2.0
    handlers: list[dict[str, Any]] = [
        {'kind': 'create', 'id': 'c1', 'script': rng.choice([[], [['temp', 0.7]], [['slow', 0.4, ['ok']]]])},
        {'kind': 'create', 'id': 'c2', 'script': rng.choice([[], [['temp', 1.3], ['ok']], [['arb']]])},
        {'kind': 'update', 'id': 'u1', 'script': rng.choice([[], [['temp', 0.9]], [['slow', 0.6, ['temp', 0.5]], ['ok']]])},
        {'kind': 'update', 'id': 'u2', 'script': rng.choice([[], [['temp', 1.1], ['temp', 0.3]]])},
        {'kind': 'event', 'id': 'ev'},
    ]
    if rng.random() < 0.3:
        handlers.append({'kind': 'delete', 'id': 'd1', 'script': rng.choice([[], [['temp', 0.8]]])})
    if rng.random() < 0.3:
        handlers.append({'kind': 'daemon', 'id': 'dm', 'persona': {'type': 'obedient'}})
    r7 = random.Random(rng.random())
    if r7.random() < 0.3:
        # a daemon that takes its time to exit once it is asked to (deletion): while it is being stopped the processing passes carry re-check delays of
        # the stopping (backoff / polling) -- which are not the consistency timeout: the barrier stands until the echo or the timeout all the same
        handlers = [h for h in handlers if h['id'] != 'dm']
        handlers.append({'kind': 'daemon', 'id': 'dm', 'persona': {'type': 'linger', 'linger': r7.choice([2.0, 6.0, 12.0])},
                         'opts': {'cancellation_backoff': r7.choice([0.3, 1.0]), **({'cancellation_timeout': 1.0} if r7.random() < 0.3 else {})}})
        if not any(h['id'] == 'd1' for h in handlers) and r7.random() < 0.7:
            handlers.append({'kind': 'delete', 'id': 'd1', 'script': r7.choice([[], [['temp', 0.8]]])})
    if rng.random() < 0.25:
        # a timer that delivers a result at every tick: patches of the framework that do not come from the object's worker
        handlers.append({'kind': 'timer', 'id': 'tm', 'opts': {'interval': rng.choice([0.3, 0.7, 1.3])}, 'script': [['ok', {'n': k}] for k in range(60)]})
    names = ['o0'] if rng.random() < 0.6 else ['o0', 'o1']
    tl: list[list[Any]] = [[0.0, 'start', 'op1']]
    for n in names:
        tl.append([round(1.0 + rng.uniform(0, 0.5), 3), 'create', n, {'spec': {'x': 0}}])
    t = 1.5
    for k in range(rng.randint(3, 12)):
        t = round(t + rng.choice([0.05, 0.2, 0.5, base * 0.5, base, base * 1.2, 3.0]), 3)
        n = rng.choice(names)
        r = rng.random()
        if r < 0.6:
            tl.append([t, 'edit', n, {'status': {'foreign': k}}])
        elif r < 0.9:
            tl.append([t, 'edit', n, {'spec': {'x': k + 1}}])
        else:
            tl.append([t, 'delete', n])
    if any(h['id'] == 'dm' and h['persona']['type'] == 'linger' for h in handlers):
        # the deletion comes early, foreign (status) events keep coming while the daemon winds down
        t_del = round(r7.uniform(3.0, 6.0), 3)
        tl.append([t_del, 'delete', names[0]])
        for k in range(r7.randint(2, 6)):
            tl.append([round(t_del + r7.uniform(0.05, 8.0), 3), 'edit', names[0], {'status': {'late': k}}])
        tl.sort(key=lambda x: x[0])
    grid = [0.0, 0.0, 0.5 * base, 0.99 * base, 1.0 * base, 1.01 * base, 1.5 * base, 3.0 * base]
    own = [round(rng.choice(grid), 6) for _ in range(3)]
    foreign = [round(rng.choice([0.0, 0.0, 0.1, 0.5 * base, 1.2 * base]), 6) for _ in range(2)]
    return {'seed': rng.randrange(1 << 30), 'handlers': handlers, 'timeline': tl, 'quiet': 4 * base + 10.0, 'horizon': 600.0,
            'lifecycle': rng.choice([None, 'one_by_one', 'all_at_once']), 'storage': rng.choice(['default', 'status']), 'resources': rng.choice(['kex', 'kex_s']),
            'settings': {'queueing__idle_timeout': idle, 'persistence__consistency_timeout': ct, 'execution__default_backoff': 0.8, 'background__cancellation_polling': 1.0},
            'lag': {'own': own, 'foreign': foreign}, 'latency': rng.choice([1e-6, 1e-6, 0.05, 0.3]), 'post_yields': rng.choice([0, 0, 1])}


def gen_cases(tier: str, seed: int):
    rng = random.Random(f'C07-{seed}')
    cases = []
    # directed: the reconnaissance scenarios (lag 2 < timeout 5 with a foreign event in between; lag 8 > timeout)
    for lag, nm in ((2.0, 'echo-late-foreign-between'), (8.0, 'echo-beyond-timeout')):
        cases.append({'name': nm, 'desc': {'handlers': [{'kind': 'create', 'id': 'c1'}, {'kind': 'create', 'id': 'c2'}, {'kind': 'event', 'id': 'ev'}], 'lifecycle': 'one_by_one',
                      'settings': {'queueing__idle_timeout': 10.0, 'persistence__consistency_timeout': 5.0}, 'lag': {'own': [lag], 'foreign': [0.0]},
                      'timeline': [[0, 'start', 'op1'], [1, 'create', 'a', {'spec': {'x': 0}}], [2.5, 'edit', 'a', {'status': {'f': 1}}]], 'quiet': 30.0, 'horizon': 300.0}})
    # directed: idle worker retires before the echo arrives (idle_timeout < consistency_timeout)
    cases.append({'name': 'idle-shorter-than-timeout', 'desc': {'handlers': [{'kind': 'create', 'id': 'c1'}, {'kind': 'create', 'id': 'c2'}, {'kind': 'event', 'id': 'ev'}],
                  'lifecycle': 'one_by_one', 'settings': {'queueing__idle_timeout': 1.0, 'persistence__consistency_timeout': 5.0}, 'lag': {'own': [3.0], 'foreign': [2.0]},
                  'timeline': [[0, 'start', 'op1'], [1, 'create', 'a', {'spec': {'x': 0}}], [1.000002, 'edit', 'a', {'status': {'f': 1}}]], 'quiet': 30.0, 'horizon': 300.0, 'latency': 1e-6}})
    # directed: a delayed handler -> sleep -> touch; a foreign write just before the touch is delivered after it, before the touch's echo
    cases.append({'name': 'touch-then-stale-foreign', 'desc': {'handlers': [{'kind': 'create', 'id': 'c1', 'script': [['temp', 3], ['ok']]}, {'kind': 'event', 'id': 'ev'}],
                  'settings': {'queueing__idle_timeout': 10.0, 'persistence__consistency_timeout': 5.0}, 'lag': {'own': [0.0, 0.0, 1.0, 1.0], 'foreign': [0.0, 0.5]},
                  'timeline': [[0, 'start', 'op1'], [1, 'create', 'a', {'spec': {'x': 0}}], [3.9, 'edit', 'a', {'status': {'f': 1}}]], 'quiet': 30.0, 'horizon': 300.0}})
    n = 500 if tier == 'quick' else 25000
    for i in range(n):
        cases.append({'name': f'rnd{i}', 'desc': rnd_desc(rng, i)})
    return cases


def run_case(case: dict[str, Any]) -> dict[str, Any]:
    from kv.monitors import Stall
    from kv.oracles import CHANGING, Index, trace_lines
    from kv.world import run_world

    Stall.take_hits()
    desc = case['desc']
    w = run_world(desc)
    ix = Index(w)
    viol: list[dict[str, Any]] = []
    cov = {k: 0 for k in GATES}
    for s in Stall.take_hits():
        viol.append({'mech': 'stall', 'msg': 'event loop stalled', 'witness': s})
    ct = float((desc.get('settings') or {}).get('persistence__consistency_timeout', 5.0) or 0.0)
    deliveries: dict[tuple[str, str], list[float]] = {}
    for s in w.sim.kube.streams:
        if s.plural == 'kopfexamples':
            for t, typ, uid, rv in s.delivered:
                if uid is not None:
                    deliveries.setdefault((s.client.name, uid), []).append((t, rv, typ))   # type: ignore[arg-type]
    sig_parts = []
    for c in ix.calls:
        if c['kind'] not in CHANGING or c.get('post_mortem') or not c.get('rv') or not str(c['rv']).isdigit():
            continue
        v = int(c['rv'])
        own_all = [r for r in ix.writes if r.client == c['inc'] and r.landed_uid == c['uid'] and r.g_done is not None and r.g_done < c['g'] and not r.lost]
        # writes made on behalf of daemons/timers (their results, their patch kwarg) come from their own tasks, not from the object's worker
        background = [r for r in own_all if str(getattr(r, 'task', None) or '').startswith('runner of ')]
        own = [r for r in own_all if r not in background]
        if background:
            cov['calls_after_background_write'] += 1
            lb = background[-1]
            Pb, tb = int(lb.result_rv), lb.t_done
            if v < Pb and ct and c['t'] < tb + ct - 1e-9 and not (own and int(own[-1].result_rv) > v and c['t'] < own[-1].t_done + ct - 1e-9):
                # stale against a daemon's/timer's patch only (judged against the worker's own writes below)
                viol.append({'mech': 'stale-view-of-background-patch', 'msg': f"{c['h']} ran at t={c['t']} on view rv={v} of {c['uid']} although the framework's patch rv={Pb} "
                             f"(made for {lb.task}) was acknowledged at t={tb}: neither echoed yet nor {ct}s elapsed", 'witness': {'write': lb.brief()}})
        if not own:
            continue
        cov['calls_after_own_write'] += 1
        last = own[-1]
        P, tp = int(last.result_rv), last.t_done
        rel = 'echo' if v >= P else 'stale'
        dl = [d for d in deliveries.get((c['inc'], c['uid']), []) if tp <= d[0] <= c['t'] and d[1] and int(d[1]) < P]   # type: ignore[index]
        if v >= P:
            cov['released_by_echo'] += 1
        elif ct and c['t'] >= tp + ct - 1e-9:
            cov['released_by_timeout'] += 1
            rel = 'timeout'
        elif not ct:
            rel = 'no-barrier'
        else:
            viol.append({'mech': 'stale-view', 'msg': f"{c['h']} ran at t={c['t']} on view rv={v} of {c['uid']} although this operator's own write rv={P} was acknowledged at "
                         f"t={tp}: neither echoed yet nor {ct}s elapsed (t - tp = {round(c['t'] - tp, 6)})", 'witness': {'write': last.brief()}})
        if dl:
            cov['foreign_events_during_barrier'] += 1
        sig_parts.append(f"{c['h']}:{rel}:{len(dl)}")
    # ---- not delayed: on.event probes run at the delivery instant, or as soon as the object's worker has finished the previous event
    # (its handlers and requests); an idle gap before the probe means it was held back by something else (the barrier).
    acts: dict[tuple[str, str], list[tuple[float, float]]] = {}
    for c in ix.calls:
        r = ix.rets.get(c['seq'])
        if c['kind'] not in ('daemon', 'timer'):
            acts.setdefault((c['inc'], c['uid']), []).append((c['t'], r['t'] if r is not None else 1e18))
    uid_of_name: dict[str, list[str]] = {}
    for uid in ix.uids:
        uid_of_name.setdefault(w.history[uid][0]['body']['metadata']['name'], []).append(uid)
    for r in w.requests:
        if r.kind == 'patch' and r.plural == 'kopfexamples' and not str(getattr(r, 'task', None) or '').startswith('runner of '):   # (the worker's own requests)
            for uid in uid_of_name.get(r.name, []):
                acts.setdefault((r.client, uid), []).append((r.t, r.t_done if r.t_done is not None else 1e18))
    probes: dict[tuple[str, str], list[dict[str, Any]]] = {}
    for c in ix.calls:
        if c['kind'] == 'event' and not c.get('post_mortem'):
            probes.setdefault((c['inc'], c['uid']), []).append(c)
    for key, cs in probes.items():
        for c in cs:
            cov['event_probe_calls'] += 1
            ds = [d for d in deliveries.get(key, []) if d[1] == c['rv']]   # type: ignore[index]
            if not ds or c['etype'] is None:
                continue
            t0 = ds[0][0]
            # whatever the worker was doing for this object at the delivery instant (handlers, requests, earlier probes), chained
            exp = t0
            grew = True
            while grew:
                grew = False
                for a, b in acts.get(key, []):
                    if a - 1e-9 <= exp < b - 1e-9 and a < c['t'] - 1e-9:
                        exp = b
                        grew = True
            if c['t'] > exp + 1e-3:
                viol.append({'mech': 'raw-event-delayed', 'msg': f"@on.event for {c['uid']} rv={c['rv']} ran at t={c['t']}; the event was delivered at t={t0} and the object's worker "
                             f"was free from t={round(exp, 6)}: it must not wait for the consistency barrier", 'witness': None})
    # ---- ... and none is skipped: every event delivered (well before the end) reaches the probe
    if w.quiesced and any(h['kind'] == 'event' for h in desc['handlers']):
        for key, ds in deliveries.items():
            inc = w.incs.get(key[0])
            if inc is None or inc.killed:
                continue
            seen_rvs = {c['rv'] for c in probes.get(key, [])}
            for t0, rv, typ in ds:   # type: ignore[misc]
                if t0 <= (w.t_quiesced or 0) - 1.0 and rv not in seen_rvs:
                    viol.append({'mech': 'raw-event-skipped', 'msg': f"the {typ} event rv={rv} of {key[1]} was delivered at t={t0} but never reached the @on.event handler", 'witness': None})
    # ---- daemons start when the object is first seen
    for c in ix.calls:
        if c['kind'] == 'daemon' and not c.get('post_mortem'):
            ds = deliveries.get((c['inc'], c['uid']), [])
            if ds and c['t'] > ds[0][0] + 1e-3 and not any(x['uid'] == c['uid'] and x['kind'] == 'daemon' and x['g'] < c['g'] for x in ix.calls):
                viol.append({'mech': 'daemon-delayed', 'msg': f"daemon {c['h']} for {c['uid']} started at t={c['t']} although the object was first delivered at t={ds[0][0]}", 'witness': None})
    if w.quiesced is False:
        viol.append({'mech': 'no-quiescence', 'msg': 'the operator kept writing until the horizon', 'witness': None})
    sig = hashlib.sha1(';'.join(sig_parts).encode()).hexdigest()[:16]
    sample = None
    if case['name'] in ('echo-late-foreign-between', 'rnd0'):
        sample = {'name': case['name'], 'lag': desc.get('lag'), 'timeline': desc['timeline'], 'relations': sig_parts[:20], 'trace_head': trace_lines(w)[:20]}
    return {'violations': viol, 'cov': cov, 'sig': sig, 'nontrivial': cov['calls_after_own_write'] > 0, 'sample': sample,
            'trace': trace_lines(w) if case.get('_verbose') else None}

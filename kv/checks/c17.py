"""
C17 -- in-memory indices mirror the cluster; handling waits for the initial index.
"""
from __future__ import annotations

import copy
import hashlib
import random
from typing import Any

ID = 'C17'
LEVEL = 'exploration'
STALL = True
TIMEOUT_PER_CASE = 120.0
TECHNIQUE = ('runtime monitoring: dictionary reference model of the documented indexing rules replayed over the events the fake API server delivered, compared with index '
             'snapshots taken through the read-only handler kwargs at every @on.event probe and change-handler call; start-up gate checked against listing/indexing records')
LEVEL_TEXT = ('Held on the explored histories: 2-6 objects with colliding index keys, 1-3 index functions whose result kind (dict, multi-key dict, scalar, None, dict of None, '
              'empty, temporary/permanent/arbitrary error) is switched per object by edits, label-filtered index functions toggled on/off, deletions and re-creations, '
              'two indexed resource kinds whose initial listings are delayed against each other by up to 5 virtual seconds. Sampled histories.')
LEVEL_NOTE = ('Snapshots are compared at every probe in runs with worker_limit=1 (strictly sequential processing, exact) and at settle points (>= 0.9 s after each external '
              'step) in concurrent runs. The model follows docs/indexing.rst, including the exclusion of permanently/temporarily failed objects.')
RULE = ("history steps 1 s apart: create/edit(mode,key,x)/label toggle/delete on random objects of two kinds; non-trivial = at least two objects shared an index key or an "
        "error/None result occurred; distinct = hash of the sequence of model states")
ASSUMPTIONS = ["docs/indexing.rst is the specification", "fake API server list/watch semantics"]
GATES = {'snapshots_compared': 500, 'collisions_seen': 20, 'error_results': 20, 'none_results': 10, 'deletes': 10, 'gate_runs': 20, 'gate_delayed_listing_runs': 5,
         'change_calls_with_index': 50}

KEYS = ['k0', 'k1', 'k2']
MODES = ['dict', 'dict', 'dict', 'multi', 'scalar', 'none', 'nonevals', 'empty', 'temp', 'perm', 'arb']
WIDGETS = dict(group='kopf.dev', version='v1', plural='kopfwidgets', kind='KopfWidget', namespaced=True)


def rnd_desc(rng: random.Random, i: int) -> dict[str, Any]:
    all_filtered = rng.random() < 0.25      # every index of the kind is filtered: an object can stop matching ALL of them at once
    handlers: list[dict[str, Any]] = [
        {'kind': 'index', 'id': 'i1', 'index_rule': {'mode_field': 'm1', 'delay': 2.0}, 'opts': {'labels': {'l': 'a'}} if all_filtered else {}},
        {'kind': 'event', 'id': 'ev'},
        {'kind': 'create', 'id': 'c1'}, {'kind': 'update', 'id': 'u1'},
    ]
    if rng.random() < 0.6:
        handlers.append({'kind': 'index', 'id': 'i2', 'index_rule': {'mode_field': 'm2', 'delay': 0.5}, 'opts': {'labels': {'l': 'a'}} if all_filtered or rng.random() < 0.6 else {}})
    if rng.random() < 0.3 and not all_filtered:
        handlers.append({'kind': 'index', 'id': 'i3', 'index_rule': {'mode_field': 'm1'}, 'opts': {'errors': rng.choice(['temporary', 'permanent']), 'backoff': 1.5}})
    two_kinds = rng.random() < 0.5
    if two_kinds:
        handlers.append({'kind': 'index', 'id': 'iw', 'resource': 'kopfwidgets', 'index_rule': {'mode_field': 'm1'}})
        handlers.append({'kind': 'event', 'id': 'evw', 'resource': 'kopfwidgets'})
        handlers.append({'kind': 'create', 'id': 'cw', 'resource': 'kopfwidgets'})
    if rng.random() < 0.3:
        handlers.append({'kind': 'timer', 'id': 'tm', 'opts': {'interval': 2.0}})
    names = [f'o{k}' for k in range(rng.randint(2, 6))]
    tl: list[list[Any]] = []
    pre = rng.random() < 0.6

    def body(n: str) -> dict[str, Any]:
        b = {'spec': {'x': rng.randint(0, 3), 'k': rng.choice(KEYS), 'k2': rng.choice(KEYS), 'm1': rng.choice(MODES[:5]), 'm2': rng.choice(MODES[:6])}}
        if rng.random() < 0.5:
            b['metadata'] = {'labels': {'l': rng.choice(['a', 'b'])}}
        return b
    t = 0.0
    if pre:
        for n in names[:rng.randint(1, len(names))]:
            tl.append([0.0, 'create', n, body(n)])
        if two_kinds:
            for k in range(rng.randint(1, 3)):
                tl.append([0.0, 'create@kopfwidgets', f'w{k}', body(f'w{k}')])
    t_start = 0.5
    tl.append([t_start, 'start', 'op1'])
    t = 8.0
    # bursts: several changes (often of ONE object) in the same instant or a millisecond apart -- the later events wait in the object's backlog
    # while the earlier one is being processed; every one of them is indexed, in order (results None / ignored errors / errors are stateful)
    rb = random.Random(rng.random())
    burst = rb.random() < 0.4
    for k in range(rng.randint(4, 14)):
        t = round(t + (rb.choice([0.0, 0.0, 0.001, 1.0]) if burst else 1.0), 3)
        n = rng.choice(names) if not (burst and rb.random() < 0.6) else names[0]
        r = rng.random()
        if r < 0.25:
            tl.append([t, 'create', n, body(n)])
        elif r < 0.6:
            patch: dict[str, Any] = {'spec': {}}
            for f in rng.sample(['x', 'k', 'k2', 'm1', 'm2'], k=rng.randint(1, 3)):
                patch['spec'][f] = rng.randint(0, 3) if f == 'x' else rng.choice(KEYS) if f.startswith('k') else rng.choice(MODES)
            tl.append([t, 'edit', n, patch])
        elif r < 0.72:
            tl.append([t, 'edit', n, {'metadata': {'labels': {'l': rng.choice(['a', 'b', None])}}}])
        elif r < 0.8:
            tl.append([t, 'edit', n, {'status': {'s': k}}])
        elif r < 0.92:
            tl.append([t, 'delete', n])
        elif two_kinds:
            tl.append([t, rng.choice(['create@kopfwidgets', 'delete@kopfwidgets']), f'w{rng.randint(0, 3)}', body('w')])
    tl.append([round(t + 4.0, 3), 'edit', names[0], {'status': {'final-probe': 1}}])
    tl.sort(key=lambda x: x[0])
    tl = [op[:3] if op[1].startswith('delete') else op for op in tl]
    desc: dict[str, Any] = {'seed': rng.randrange(1 << 30), 'handlers': handlers, 'timeline': tl, 'quiet': 8.0, 'horizon': 300.0,
                            'settings': {'queueing__idle_timeout': 0.5, 'persistence__consistency_timeout': 0.5, 'queueing__worker_limit': rng.choice([1, 1, None])},
                            'extra_resources': [WIDGETS] if two_kinds else [], 'lifecycle': 'all_at_once'}
    if two_kinds and pre and rng.random() < 0.7:
        # the initial listing of one indexed kind is much slower than the other
        slow = rng.choice(['kopfwidgets', 'kopfexamples'])
        delay = rng.choice([1.0, 3.0, 5.0])
        desc['faults'] = [{'client': 'op1', 'match': {'kind': 'list', 'plural': slow}, 'nth': 1, 'actions': [['latency', {'delay': delay}]]}]
        if rng.random() < 0.7:
            # a NEW object of the already listed kind appears while the other kind is still being listed: its handlers must wait too
            fast = 'kopfexamples' if slow == 'kopfwidgets' else 'kopfwidgets'
            desc['timeline'].append([round(t_start + delay * rng.choice([0.3, 0.5, 0.8]), 3), 'create' if fast == 'kopfexamples' else 'create@kopfwidgets', 'late0' if fast == 'kopfexamples' else 'wlate0', body('late0')])
            desc['timeline'].sort(key=lambda x: x[0])
    return desc


def gen_cases(tier: str, seed: int):
    rng = random.Random(f'C17-{seed}')
    n = 400 if tier == 'quick' else 15000
    return [{'name': f'rnd{i}', 'desc': rnd_desc(rng, i)} for i in range(n)]


# ------------------------------------------------------------------------------------------
class Model:
    """docs/indexing.rst as a dictionary machine, per operator incarnation."""

    def __init__(self, specs: dict[str, dict[str, Any]], plural_of: dict[str, str]) -> None:
        self.specs = specs
        self.values: dict[str, dict[str, dict[Any, Any]]] = {h: {} for h in specs}     # index id -> uid -> {key: value}
        self.excluded: dict[tuple[str, str], float] = {}                                  # (index id, uid) -> until (inf = forever)
        self.plural_of = plural_of
        self.stats = {'collisions': 0, 'errors': 0, 'nones': 0, 'deletes': 0}

    def event(self, plural: str, etype: str | None, body: dict[str, Any], t: float) -> None:
        uid = body['metadata']['uid']
        for h, spec in self.specs.items():
            if spec.get('resource', 'kopfexamples') != plural:
                continue
            if etype == 'DELETED':
                if self.values[h].pop(uid, None) is not None:
                    self.stats['deletes'] += 1
                self.excluded.pop((h, uid), None)
                continue
            labels = (body['metadata'].get('labels') or {})
            flt = (spec.get('opts') or {}).get('labels') or {}
            if not all(labels.get(k) == v for k, v in flt.items()):
                self.values[h].pop(uid, None)
                continue
            until = self.excluded.get((h, uid))
            if until is not None and t < until - 1e-9:
                self.values[h].pop(uid, None)
                continue
            rule = spec['index_rule']
            sp = body.get('spec') or {}
            mode = sp.get(rule.get('mode_field', 'm'), 'dict')
            val = f"{body['metadata']['name']}:{sp.get('x')}"
            errors_mode = ((spec.get('opts') or {}).get('errors') or 'ignored').lower()
            backoff = (spec.get('opts') or {}).get('backoff', 60.0)
            if mode in ('temp', 'perm', 'arb'):
                self.stats['errors'] += 1
                if mode == 'arb' and errors_mode == 'ignored':
                    self.excluded.pop((h, uid), None)
                    continue                                   # stale values kept
                if mode == 'perm' or (mode == 'arb' and errors_mode == 'permanent'):
                    self.values[h].pop(uid, None)
                    self.excluded[(h, uid)] = float('inf')
                else:
                    self.values[h].pop(uid, None)
                    self.excluded[(h, uid)] = t + (rule.get('delay', 2.0) if mode == 'temp' else backoff)
                continue
            self.excluded.pop((h, uid), None)
            if mode == 'none':
                self.stats['nones'] += 1
                continue                                       # preserved as is
            if mode == 'dict':
                res: dict[Any, Any] = {sp.get('k', 'k0'): val}
            elif mode == 'multi':
                res = {sp.get('k', 'k0'): val, sp.get('k2', 'k9'): val}
            elif mode == 'scalar':
                res = {None: val}
            elif mode == 'nonevals':
                res = {sp.get('k', 'k0'): None}
            elif mode == 'empty':
                res = {}
            else:
                raise ValueError(mode)
            self.values[h][uid] = res

    def view(self) -> dict[str, dict[str, list[str]]]:
        out: dict[str, dict[str, list[str]]] = {}
        for h, per in self.values.items():
            idx: dict[str, list[str]] = {}
            for uid, res in per.items():
                for k, v in res.items():
                    idx.setdefault(repr(k), []).append(repr(v))
            for k in idx:
                if len(idx[k]) > 1:
                    self.stats['collisions'] += 1
                idx[k].sort()
            out[h] = idx
        return out


def run_case(case: dict[str, Any]) -> dict[str, Any]:
    from kv.monitors import Stall
    from kv.oracles import Index, trace_lines
    from kv.world import run_world

    Stall.take_hits()
    desc = case['desc']
    w = run_world(desc)
    ix = Index(w)
    viol: list[dict[str, Any]] = []
    cov = {k: 0 for k in GATES}
    for s in Stall.take_hits():
        viol.append({'mech': 'stall', 'msg': 'event loop stalled', 'witness': s})
    specs = {h['id']: h for h in desc['handlers'] if h['kind'] == 'index'}
    sequential = (desc.get('settings') or {}).get('queueing__worker_limit') == 1 and len({s.get('resource', 'kopfexamples') for s in specs.values()}) == 1
    inc = 'op1'
    # the events the operator was given, per kind, in the order of delivery: first listing, then the stream(s)
    kinds = sorted({s.get('resource', 'kopfexamples') for s in specs.values()})
    feed: list[tuple[float, int, str, str | None, dict[str, Any]]] = []   # (t, order, plural, type, body)
    order = 0
    for pl in kinds:
        lists = [r for r in w.requests if r.client == inc and r.kind == 'list' and r.plural == pl and r.status == 200]
        for lr in lists[:1]:
            rv = int(lr.result_rv)
            for uid, vs in w.history.items():
                if vs[0]['plural'] != pl:
                    continue
                upto = [v for v in vs if v['rv'] <= rv]
                if upto and upto[-1]['type'] != 'DELETED':
                    order += 1
                    feed.append((lr.t_done, order, pl, None, upto[-1]['body']))
        for st in w.sim.kube.streams:
            if st.client.name == inc and st.plural == pl:
                for t, typ, uid, rv in st.delivered:
                    if uid is None or typ not in ('ADDED', 'MODIFIED', 'DELETED'):
                        continue
                    b = next((v['body'] for v in w.history[uid] if str(v['rv']) == str(rv)), None)
                    if b is None:
                        continue
                    order += 1
                    feed.append((t, order, pl, typ, b))
    feed.sort(key=lambda x: (x[0], x[1]))
    probes = [c for c in ix.calls if c['kind'] == 'event' and c.get('idx') is not None and c['inc'] == inc]
    model = Model(specs, {})
    states: list[str] = []
    if sequential:
        # exact: replay in the order the probes ran (one event at a time); match each probe with the fed event (uid, rv)
        remaining = list(feed)
        # the start-up gate: every initially listed object is indexed before the first probe runs
        t_first = probes[0]['t'] if probes else 0.0
        for f in [f for f in remaining if f[3] is None]:
            model.event(f[2], f[3], f[4], t_first)
        for p in probes:
            j = next((k for k, f in enumerate(remaining) if f[4]['metadata']['uid'] == p['uid'] and str(f[4]['metadata'].get('resourceVersion')) == str(p['rv'])), None)
            if j is None:
                continue
            f = remaining.pop(j)
            if f[3] is not None:
                model.event(f[2], f[3], f[4], p['t'])
            want = model.view()
            got = {h: p['idx'].get(h, {}) for h in specs}
            cov['snapshots_compared'] += 1
            states.append(repr(sorted((h, sorted(v.items())) for h, v in want.items())))
            if got != want:
                viol.append({'mech': 'index-mismatch', 'msg': f"after the {f[3]} event of {p['uid']} (rv={p['rv']}, t={p['t']}) the indices are {got}, the documented rules give {want}",
                             'witness': {'event_spec': f[4].get('spec'), 'labels': f[4]['metadata'].get('labels')}})
                break
    else:
        # settle points: the snapshot of the last probe before each external step (+0.9 s) against the model of everything delivered by then
        steps = sorted({op[0] for op in desc['timeline'] if op[1] not in ('start',)})
        for st in steps[1:] + [steps[-1] + 3.0]:
            t_settle = st - 0.1
            ps = [p for p in probes if p['t'] <= t_settle]
            if not ps:
                continue
            last = ps[-1]
            fed = [f for f in feed if f[0] <= t_settle]
            if any(t_settle - 0.85 < f[0] for f in fed):
                continue   # something arrived too recently to call this a settle point
            m = Model(specs, {})
            for f in fed:
                m.event(f[2], f[3], f[4], f[0])
            if any(last['t'] < f[0] for f in fed):
                continue
            # ... and everything delivered by then has been PROCESSED by then: under a worker limit the events of other objects wait for a free worker
            # (an idle worker keeps its slot for the idle timeout), so "delivered long ago" does not mean "seen" yet
            probed = {(p['uid'], str(p['rv'])) for p in ps}
            if any(f[3] is not None and (f[4]['metadata']['uid'], str(f[4]['metadata'].get('resourceVersion'))) not in probed for f in fed):
                cov['unsettled_points_skipped'] = cov.get('unsettled_points_skipped', 0) + 1
                continue
            want = m.view()
            got = {h: last['idx'].get(h, {}) for h in specs}
            cov['snapshots_compared'] += 1
            states.append(repr(sorted((h, sorted(v.items())) for h, v in want.items())))
            for k2, v2 in m.stats.items():
                model.stats[k2] = max(model.stats[k2], v2)
            if got != want:
                viol.append({'mech': 'index-mismatch', 'msg': f"at the settle point t={t_settle} the indices are {got}, the documented rules give {want}", 'witness': None})
                break
    cov['collisions_seen'] += model.stats['collisions']
    cov['error_results'] += model.stats['errors']
    cov['none_results'] += model.stats['nones']
    cov['deletes'] += model.stats['deletes']
    # ---- the start-up gate: nothing but indexing/probing before every indexed kind was listed and indexed once
    cov['gate_runs'] += 1
    if desc.get('faults'):
        cov['gate_delayed_listing_runs'] += 1
    t_ready = 0.0
    pending: set[tuple[str, str]] = set()
    listed: dict[str, set[str]] = {}
    list_rv: dict[str, int] = {}
    for pl in kinds:
        lists = [r for r in w.requests if r.client == inc and r.kind == 'list' and r.plural == pl and r.status == 200]
        if not lists:
            continue
        t_ready = max(t_ready, lists[0].t_done)
        rv = int(lists[0].result_rv)
        list_rv[pl] = rv
        listed[pl] = {uid for uid, vs in w.history.items() if vs[0]['plural'] == pl and [v for v in vs if v['rv'] <= rv] and [v for v in vs if v['rv'] <= rv][-1]['type'] != 'DELETED'}
    index_done: dict[str, float] = {}
    for c in ix.calls:
        # only the indexing of the LISTED state counts (an object matching no index filter at the listing is never indexed then)
        if c['kind'] == 'index' and c['inc'] == inc and c['seq'] in ix.rets and c['uid'] in w.history \
                and int(c['rv']) <= list_rv.get(w.history[c['uid']][0]['plural'], -1):
            index_done.setdefault(c['uid'], ix.rets[c['seq']]['t'])
    for pl, uids in listed.items():
        for uid in uids:
            if uid in index_done:
                t_ready = max(t_ready, index_done[uid])
    gated = [c for c in ix.calls if c['inc'] == inc and c['kind'] in ('create', 'update', 'delete', 'resume', 'daemon', 'timer')]
    for c in gated:
        if c['t'] < t_ready - 1e-9:
            viol.append({'mech': 'gate-open-too-early', 'msg': f"{c['h']} ({c['kind']}) ran at t={c['t']} for {c['uid']}, but the initial listing+indexing of all indexed kinds was only complete at t={t_ready}",
                         'witness': {'listed': {k: sorted(v) for k, v in listed.items()}}})
            break
    if gated and gated[0].get('idx') is not None:
        cov['change_calls_with_index'] += len(gated)
        first = gated[0]
        m = Model(specs, {})
        for f in feed:
            if f[3] is None:
                m.event(f[2], f[3], f[4], f[0])
        want_initial = m.view()
        got = {h: first['idx'].get(h, {}) for h in specs}
        missing = {h: {k: v for k, v in want_initial[h].items() if not set(v) <= set(got.get(h, {}).get(k, []))} for h in specs}
        stream_before = [f for f in feed if f[3] is not None and f[0] <= first['t']]
        if any(missing.values()) and not stream_before:
            viol.append({'mech': 'first-handler-sees-incomplete-index', 'msg': f"the first handler call ({first['h']} at t={first['t']}) does not see all initially listed objects in the indices: missing {missing}", 'witness': None})
    sig = hashlib.sha1(''.join(states).encode()).hexdigest()[:16]
    sample = None
    if case['name'] == 'rnd0':
        sample = {'timeline': desc['timeline'][:8], 'index_handlers': list(specs), 'last_snapshot': probes[-1]['idx'] if probes else None}
    return {'violations': viol, 'cov': cov, 'sig': sig, 'nontrivial': model.stats['collisions'] > 0 or model.stats['errors'] > 0 or model.stats['nones'] > 0, 'sample': sample,
            'trace': trace_lines(w) if case.get('_verbose') else None}

"""
C04 -- change detection is exact: own writes invisible, diffs sound and complete.

Pure part: generated inputs on the real diffs.diff / diffs.reduce / DiffBaseStorage.build / ProgressStorage.clear.
Closed loop: two Kopf-based operators with different prefixes on the same objects (no ping-pong), and the old/new/diff
kwargs every change handler received (whole-object and field-narrowed) checked with an independent diff applier.
"""
from __future__ import annotations

import copy
import hashlib
import json
import random
from typing import Any

ID = 'C04'
LEVEL = 'exploration'
STALL = True
TIMEOUT_PER_CASE = 180.0
TECHNIQUE = ('runtime monitoring: reference-model oracles (independent RFC 7386 merge, independent diff applier, independent essence) evaluated on the '
             'real diff/reduce/essence/storage functions over generated bodies, and on the old/new/diff values recorded at handler invocations in '
             'closed-loop runs of one and of two coexisting operators')
LEVEL_TEXT = ('Held on what was generated: tens of thousands of body pairs (nesting <= 4, empty containers, nulls, unicode and dotted/slashed keys, all '
              'JSON scalar types) for soundness/completeness of diff and of its narrowing to every field path above/at/below the changed nodes; every kind of '
              'framework write (progress store/purge, touch, last-handled state, finalizer, results, marker) under 8 storage configurations shown invisible to '
              'the essence while spec/label/annotation changes stay visible; two operators with different prefixes converge without triggering each other. '
              'Exploration: the input space is unbounded.')
LEVEL_NOTE = ('Equality is JSON equality modulo "null-valued key == absent key" (kopf\'s diff format uses None as the absence marker, so it cannot express '
              'that distinction). Known findings are classified by mechanism (see known_findings.json). Trusted: the independent appliers in this file and kv/fakekube.py.')
RULE = ("pure: random body pairs (b derived from a by 0-6 random edits, or independent) -> O1 apply(diff(a,b),a)==b and empty diff => a==b; O2 the same for "
        "reduce(diff,f) at every prefix/extension of changed paths; O3 framework writes under each storage configuration leave the essence unchanged; O4 payload "
        "edits change it. non-trivial = the pair differs in at least one leaf or the write set is non-empty; distinct = hash of (a,b) or of (body, config, writes). "
        "loop: two-operator and field-handler scenarios; distinct = hash of handler call sequence")
ASSUMPTIONS = ["JSON equality modulo null==absent", "fake API server semantics for the closed-loop part"]
GATES = {'o5_selfcheck': 20, 'o1_pairs': 1000, 'o1_nonempty': 500, 'o2_fields': 2000, 'o3_writes': 500, 'o4_edits': 500, 'loop_calls_with_diff': 50, 'empty_essence_objects': 5, 'two_operator_runs': 1, 'repo_test_diff_evaluations': 0}

KEY_ALPHABET = ['a', 'b', 'c', 'x.y', 'p/q', 'ключ', '', 'a b', '0', 'kopf', 'status', 'spec', 'metadata', 'élan', '~t', 'true']
LEAVES: list[Any] = [0, 1, 2, -1, 1.5, 0.0, True, False, None, '', 'a', 'b', 'строка', '0', '1', 'true', [], {}, [1, 2], [{'a': 1}], [None]]


def rnd_value(rng: random.Random, depth: int) -> Any:
    r = rng.random()
    if depth <= 0 or r < 0.35:
        return copy.deepcopy(rng.choice(LEAVES))
    if r < 0.85:
        return {rng.choice(KEY_ALPHABET): rnd_value(rng, depth - 1) for _ in range(rng.randint(0, 4))}
    return [rnd_value(rng, depth - 1) for _ in range(rng.randint(0, 3))]


def rnd_dict(rng: random.Random, depth: int = 4) -> dict[str, Any]:
    return {rng.choice(KEY_ALPHABET): rnd_value(rng, depth - 1) for _ in range(rng.randint(0, 5))}


def all_paths(x: Any, prefix: tuple[str, ...] = ()) -> list[tuple[str, ...]]:
    out = [prefix]
    if isinstance(x, dict):
        for k, v in x.items():
            out += all_paths(v, prefix + (k,))
    return out


def edit(rng: random.Random, d: dict[str, Any]) -> None:
    paths = [p for p in all_paths(d) if p]
    how = rng.random()
    if not paths or how < 0.25:
        # add somewhere
        cont = [p for p in all_paths(d) if isinstance(resolve(d, p), dict)]
        p = rng.choice(cont)
        resolve(d, p)[rng.choice(KEY_ALPHABET)] = rnd_value(rng, 2)
        return
    p = rng.choice(paths)
    parent = resolve(d, p[:-1])
    if how < 0.5:
        parent.pop(p[-1], None)
    elif how < 0.8:
        parent[p[-1]] = rnd_value(rng, 2)
    else:
        # subtle: same value, other JSON type
        v = parent[p[-1]]
        parent[p[-1]] = {True: 1, False: 0, 1: True, 0: False, '1': 1, '': None, None: ''}.get(v, rnd_value(rng, 1)) if not isinstance(v, (dict, list)) else ({} if v else None)


def resolve(d: Any, path: tuple[str, ...], default: Any = None) -> Any:
    cur = d
    for k in path:
        if isinstance(cur, dict) and k in cur:
            cur = cur[k]
        else:
            return default
    return cur


def apply_diff(diff: Any, a: Any) -> Any:
    """Independent applier of kopf's diff format [(op, path, old, new)...] to a value."""
    out = copy.deepcopy(a)
    for op, path, old, new in diff:
        op = str(op)
        path = tuple(path)
        if not path:
            out = copy.deepcopy(new) if op != 'remove' else None
            continue
        if not isinstance(out, dict):
            out = {}
        cur = out
        for k in path[:-1]:
            if not isinstance(cur.get(k), dict):
                cur[k] = {}
            cur = cur[k]
        if op == 'remove':
            cur.pop(path[-1], None)
        else:
            cur[path[-1]] = copy.deepcopy(new)
    return out


def gen_cases(tier: str, seed: int):
    rng = random.Random(f'C04-{seed}')
    nb = 160 if tier == 'quick' else 4000
    cases: list[dict[str, Any]] = []
    for i in range(nb):
        cases.append({'name': f'pure{i}', 'mode': 'pure', 'seed': rng.randrange(1 << 30), 'n': 150})
    if tier != 'quick':
        cases.append({'name': 'repotests', 'mode': 'repotests'})     # the repository's own tests, run with the recording contract on
    nl = 160 if tier == 'quick' else 4000
    for i in range(nl):
        cases.append({'name': f'loop{i}', 'mode': 'loop', 'seed': rng.randrange(1 << 30), 'variant': ['two', 'field'][i % 2]})
    return cases


def run_case(case: dict[str, Any]) -> dict[str, Any]:
    if case['mode'] == 'repotests':
        return run_repotests()
    return run_pure(case) if case['mode'] == 'pure' else run_loop(case)


def run_repotests() -> dict[str, Any]:
    """The repository's own tests as a workload: every diff(a, b) of plain JSON documents they compute must rebuild b from a."""
    from kv.repotests import run_with_contracts
    rep = run_with_contracts()
    cov = {k: 0 for k in GATES}
    viol: list[dict[str, Any]] = []
    d = rep.get('diff') or {}
    cov['repo_test_diff_evaluations'] = int(d.get('evaluations', 0))
    for x in d.get('disagreements', []):
        viol.append({'mech': 'diff-does-not-rebuild-in-repo-tests', 'msg': f"a diff computed in {x.get('test')}: applying {x['diff']} to {x['a']} does not give {x['b']}", 'witness': x})
    if d.get('known_bool_int'):
        viol.append({'mech': 'bool-int-conflation', 'msg': f"{d['known_bool_int']} diff(s) computed by the repository's tests conflate booleans with equal numbers", 'witness': None})
    return {'violations': viol[:5], 'cov': cov, 'sig': 'repotests', 'nontrivial': cov['repo_test_diff_evaluations'] > 0,
            'sample': {'report': {k: v for k, v in rep.items() if k in ('pytest_rc', 'pytest_tail', 'error')}, 'diff_evaluations': cov['repo_test_diff_evaluations']}}


# ------------------------------------------------------------------------------------------
STORAGE_CONFIGS = ['default', 'ann:my-op.example.com', 'ann:kopf.dev', 'ann-v2only:x.example.org', 'status', 'smart:op2.example.org',
                   'multi:a.example.com', 'ann:sub.kopf.zalando.org']


def make_storages(cfg: str) -> tuple[Any, Any, str, str]:
    import kopf
    kind, _, prefix = cfg.partition(':')
    prefix = prefix or 'kopf.zalando.org'
    if kind == 'default':
        return kopf.SmartProgressStorage(), kopf.AnnotationsDiffBaseStorage(), 'kopf.zalando.org/KopfFinalizerMarker', 'kopf.zalando.org'
    if kind == 'ann':
        return kopf.AnnotationsProgressStorage(prefix=prefix), kopf.AnnotationsDiffBaseStorage(prefix=prefix), f'{prefix}/fin', prefix
    if kind == 'ann-v2only':
        return kopf.AnnotationsProgressStorage(prefix=prefix, v1=False), kopf.AnnotationsDiffBaseStorage(prefix=prefix, v1=False), f'{prefix}/fin', prefix
    if kind == 'status':
        return kopf.StatusProgressStorage(), kopf.StatusDiffBaseStorage(), 'kopf.zalando.org/KopfFinalizerMarker', ''
    if kind == 'smart':
        return kopf.SmartProgressStorage(prefix=prefix), kopf.AnnotationsDiffBaseStorage(prefix=prefix), f'{prefix}/fin', prefix
    if kind == 'multi':
        return (kopf.MultiProgressStorage([kopf.AnnotationsProgressStorage(prefix=prefix), kopf.StatusProgressStorage()]),
                kopf.MultiDiffBaseStorage([kopf.AnnotationsDiffBaseStorage(prefix=prefix), kopf.StatusDiffBaseStorage()]), f'{prefix}/fin', prefix)
    raise ValueError(cfg)


def rnd_body(rng: random.Random) -> dict[str, Any]:
    body: dict[str, Any] = {'apiVersion': 'kopf.dev/v1', 'kind': 'KopfExample',
                            'metadata': {'name': 'n', 'namespace': 'ns', 'uid': 'u1', 'resourceVersion': str(rng.randint(1, 999)), 'generation': 1,
                                         'creationTimestamp': '2030-01-01T00:00:00Z'}}
    if rng.random() < 0.8:
        body['spec'] = rnd_dict(rng, 3)
    if rng.random() < 0.3:
        body['data'] = rnd_dict(rng, 2)
    if rng.random() < 0.6:
        body['metadata']['labels'] = {rng.choice(['app', 'tier', 'x/y']): rng.choice(['a', 'b', '']) for _ in range(rng.randint(0, 2))}
    if rng.random() < 0.6:
        body['metadata']['annotations'] = {rng.choice(['note', 'example.com/owner', 'kubectl.kubernetes.io/last-applied-configuration', 'a.b/c']): rng.choice(['v', '{}', ''])
                                           for _ in range(rng.randint(0, 3))}
    if rng.random() < 0.5:
        body['status'] = rnd_dict(rng, 2)
    if rng.random() < 0.3:
        body['metadata']['finalizers'] = ['other/fin']
    if rng.random() < 0.15:
        # the one case where kopf suffixes its keys: ReplicaSets owned by Deployments
        body['kind'] = 'ReplicaSet'
        body['apiVersion'] = 'apps/v1'
        body['metadata']['ownerReferences'] = [{'kind': 'Deployment', 'name': 'd', 'uid': 'du', 'apiVersion': 'apps/v1'}]
    return body


def essence_of(progress: Any, diffbase: Any, raw: dict[str, Any], extra: tuple[Any, ...] = ()) -> Any:
    """The 'new' state exactly as processing._detect_causes computes it."""
    from kopf._cogs.structs import bodies
    new = diffbase.build(body=bodies.Body(raw), extra_fields=extra)
    return progress.clear(essence=new) if new is not None else None


def stored_of(progress: Any, diffbase: Any, raw: dict[str, Any]) -> Any:
    """The 'old' state exactly as processing._detect_causes computes it."""
    from kopf._cogs.structs import bodies
    old = diffbase.fetch(body=bodies.Body(raw))
    return progress.clear(essence=old) if old is not None else None


def run_pure(case: dict[str, Any]) -> dict[str, Any]:
    import kopf
    from kopf._cogs.structs import bodies, diffs, patches
    from kv.fakekube import merge_patch
    from kv.refmodels import json_eq_mod_null, _strip_nulls, _typed

    rng = random.Random(case['seed'])
    viol: list[dict[str, Any]] = []
    cov = {'o1_pairs': 0, 'o1_nonempty': 0, 'o2_fields': 0, 'o3_writes': 0, 'o4_edits': 0}
    sigs = hashlib.sha1()
    sample = None

    def only_bool_int(a: Any, b: Any) -> bool:
        """The two values are equal for Python (True == 1) but not as JSON."""
        return a == b and not json_eq_mod_null(a, b)

    for i in range(case['n']):
        a = rnd_dict(rng)
        if rng.random() < 0.8:
            b = copy.deepcopy(a)
            for _ in range(rng.randint(0, 6)):
                edit(rng, b)
        else:
            b = rnd_dict(rng)
        if rng.random() < 0.05:
            a = None  # type: ignore[assignment]
        d = diffs.diff(a, b)
        cov['o1_pairs'] += 1
        cov['o1_nonempty'] += bool(d)
        sigs.update(json.dumps([a, b], sort_keys=True, default=str).encode())
        if sample is None and d:
            sample = {'a': a, 'b': b, 'diff': [list(map(str, (x[0], x[1]))) for x in d][:5]}
        applied = apply_diff(d, a)
        if not json_eq_mod_null(applied, b):
            mech = 'bool-int-conflation' if _strip_nulls(applied) == _strip_nulls(b) else 'diff-unsound'
            viol.append({'mech': mech, 'msg': f'apply(diff(a,b), a) != b' + (' (differs only in bool-vs-number leaves: Python == conflates True/1, False/0)' if mech == 'bool-int-conflation' else ''),
                         'witness': {'a': a, 'b': b, 'diff': repr(d), 'applied': applied}})
        if not d and not json_eq_mod_null(a, b):
            mech = 'bool-int-conflation' if _strip_nulls(a) == _strip_nulls(b) else 'diff-incomplete'
            if mech != 'bool-int-conflation' or not any(v['mech'] == mech and v['witness'].get('a') == a for v in viol[-1:]):
                viol.append({'mech': mech, 'msg': 'diff is empty although the values differ', 'witness': {'a': a, 'b': b}})
        if not d and json_eq_mod_null(a, b) and _typed(a) != _typed(b):
            # equal up to null-valued keys only: kopf's diff format uses None for 'absent', so {'k': null} -> {} (or back) is no change for it
            cov['null_vs_absent_pairs'] = cov.get('null_vs_absent_pairs', 0) + 1
            viol.append({'mech': 'null-vs-absent-conflation', 'msg': 'diff is empty although one side has a null-valued key that the other side lacks', 'witness': {'a': a, 'b': b}})
        # O2: narrowing to fields
        fields = set()
        for op, path, old, new in d:
            path = tuple(path)
            for k in range(len(path) + 1):
                fields.add(path[:k])
            for ext in all_paths(new if isinstance(new, dict) else old if isinstance(old, dict) else {}):
                fields.add(path + ext)
        for p in list(all_paths(b if isinstance(b, dict) else {}))[:6]:
            fields.add(p)
        for f in list(fields)[:25]:
            if not f:
                continue
            cov['o2_fields'] += 1
            red = diffs.reduce(d, f)
            af, bf = resolve(a, f), resolve(b, f)
            got = apply_diff(red, af)
            if not json_eq_mod_null(got, bf):
                mech = 'bool-int-conflation' if _strip_nulls(got) == _strip_nulls(bf) else 'reduce-unsound'
                viol.append({'mech': mech, 'msg': f'apply(reduce(diff(a,b), {f!r}), a[f]) != b[f]', 'witness': {'a': a, 'b': b, 'field': f, 'reduced': repr(red), 'got': got, 'want': bf}})
            if not red and not json_eq_mod_null(af, bf):
                mech = 'bool-int-conflation' if _strip_nulls(af) == _strip_nulls(bf) else 'reduce-incomplete'
                viol.append({'mech': mech, 'msg': f'reduce(diff(a,b), {f!r}) is empty although a[f] != b[f]', 'witness': {'a': a, 'b': b, 'field': f}})

    # O3 / O4 on essences
    for i in range(max(10, case['n'] // 6)):
        cfg = rng.choice(STORAGE_CONFIGS)
        progress, diffbase, finalizer, prefix = make_storages(cfg)
        raw = rnd_body(rng)
        extra = rng.choice([(), (), (('metadata', 'annotations'),), (('metadata', 'labels'), ('spec',)), (('status', 'observed'),), ('metadata.annotations',)])
        watches_annotations = any('annotations' in str(x) for x in extra)
        e0 = essence_of(progress, diffbase, raw, extra)
        hids = [rng.choice(['h1', 'create_fn', 'a/b', 'update.sub/x', 'h' * rng.randint(40, 90), 'lambda:<f>:1']) for _ in range(rng.randint(1, 3))]
        cur = copy.deepcopy(raw)
        writes = []
        for step in range(rng.randint(1, 6)):
            body = bodies.Body(cur)
            patch = patches.Patch()
            what = rng.choice(['store', 'purge', 'touch', 'untouch', 'diffbase', 'fin+', 'fin-', 'result', 'sysmeta', 'status', 'peer'])
            if what == 'peer' and watches_annotations:
                what = 'store'   # a handler that asked for ALL annotations does see those of other operators
            if what == 'store':
                for h in hids:
                    progress.store(key=h, record={'started': '2030-01-01T00:00:00', 'retries': step, 'success': bool(step % 2), 'message': 'сообщение', 'delayed': None}, body=body, patch=patch)
            elif what == 'purge':
                for h in hids:
                    progress.purge(key=h, body=body, patch=patch)
            elif what == 'touch':
                progress.touch(body=body, patch=patch, value=f'2030-01-01T00:00:0{step}')
            elif what == 'untouch':
                progress.touch(body=body, patch=patch, value=None)
            elif what == 'diffbase':
                diffbase.store(body=body, patch=patch, essence=essence_of(progress, diffbase, cur))
            elif what == 'fin+':
                fins = list(cur['metadata'].get('finalizers') or [])
                if finalizer not in fins:
                    patch.setdefault('metadata', {})['finalizers'] = fins + [finalizer]
            elif what == 'fin-':
                fins = [f for f in (cur['metadata'].get('finalizers') or []) if f != finalizer]
                patch.setdefault('metadata', {})['finalizers'] = fins or None
            elif what == 'result':
                patch.setdefault('status', {})[hids[0]] = {'ok': step}
            elif what == 'sysmeta':
                patch.setdefault('metadata', {}).update({'resourceVersion': str(1000 + step), 'generation': step + 2,
                                                         'managedFields': [{'manager': 'kopf', 'operation': 'Update'}]})
            elif what == 'status':
                patch['status'] = {'phase': f'p{step}', 'conditions': [{'type': 'Ready'}]}
            elif what == 'peer':
                # the same kinds of writes by a SECOND kopf operator using another (marked) prefix
                p2, d2, _, _ = make_storages('ann:peer-op.example.net')
                p2.store(key='peer_handler', record={'started': 'x', 'retries': 1}, body=body, patch=patch)
                p2.touch(body=body, patch=patch, value='tick')
                d2.store(body=body, patch=patch, essence=essence_of(p2, d2, cur))
            if not patch:
                continue
            cov['o3_writes'] += 1
            writes.append(what)
            cur = merge_patch(cur, json.loads(json.dumps(patch)))
            for k in ('labels', 'annotations', 'finalizers'):
                if k in cur.get('metadata', {}) and not cur['metadata'][k]:
                    del cur['metadata'][k]
            e1 = essence_of(progress, diffbase, cur, extra)
            dd = diffs.diff(e0, e1)
            if what == 'diffbase':
                # handling must not trigger itself: right after the last-handled state is stored, old == new
                cov['o5_selfcheck'] = cov.get('o5_selfcheck', 0) + 1
                old = stored_of(progress, diffbase, cur)
                self_diff = diffs.diff(old, essence_of(progress, diffbase, cur))
                if old is None or self_diff:
                    viol.append({'mech': 'self-trigger', 'msg': f'[{cfg}] right after the last-handled state was stored the object still looks changed/never handled: '
                                 f'stored={"absent" if old is None else "present"} diff={self_diff!r}', 'witness': {'config': cfg, 'body': cur}})
                    break
            if dd:
                mech = 'unmarked-kopf-dot-prefix' if False else 'own-write-visible'
                viol.append({'mech': mech, 'msg': f'[{cfg}] framework write "{what}" changes the essence used for change detection: {dd!r}',
                             'witness': {'config': cfg, 'body': raw, 'writes': writes, 'after': cur}})
                break
        sigs.update(json.dumps([cfg, raw, writes], sort_keys=True, default=str).encode())
        # peer operators whose prefix starts with "kopf." but is not the default one write no marker: seen by others
        if rng.random() < 0.3:
            pa, da, _, _ = make_storages(cfg)
            pb, db, _, _ = make_storages('ann:kopf.dev')
            body = bodies.Body(raw)
            patch = patches.Patch()
            pb.store(key='h', record={'started': 'x', 'retries': 1}, body=body, patch=patch)
            pb.touch(body=body, patch=patch, value='tick')
            after = merge_patch(raw, json.loads(json.dumps(patch)))
            dd = diffs.diff(essence_of(pa, da, raw), essence_of(pa, da, after))
            cov['o3_writes'] += 1
            if dd and cfg not in ('ann:kopf.dev',):
                viol.append({'mech': 'unmarked-kopf-dot-prefix', 'msg': f'[{cfg}] progress/touch annotations of a peer Kopf operator with prefix "kopf.dev" (no kopf-managed '
                             f'marker is written for prefixes starting with "kopf.") count as an essential change: {dd!r}', 'witness': {'config': cfg, 'patch': dict(patch)}})
        # O4: payload edits are visible
        b2 = copy.deepcopy(raw)
        where = rng.choice(['spec', 'data', 'label', 'annotation'])
        if where == 'spec':
            b2.setdefault('spec', {})['__new__'] = rng.choice([1, 'x', [1], {'k': 'v'}])
        elif where == 'data':
            b2['extra'] = {'k': rng.choice([1, 'x'])}
        elif where == 'label':
            b2['metadata'].setdefault('labels', {})['new-label'] = 'v'
        else:
            b2['metadata'].setdefault('annotations', {})['example.com/new-annotation'] = 'v'
        cov['o4_edits'] += 1
        if not diffs.diff(essence_of(progress, diffbase, raw), essence_of(progress, diffbase, b2)):
            viol.append({'mech': 'payload-change-invisible', 'msg': f'[{cfg}] a change of {where} does not change the essence', 'witness': {'before': raw, 'after': b2}})
    return {'violations': viol, 'cov': cov, 'sig': sigs.hexdigest()[:16], 'nontrivial': cov['o1_nonempty'] > 0, 'sample': sample}


# ------------------------------------------------------------------------------------------
def run_loop(case: dict[str, Any]) -> dict[str, Any]:
    from kv.monitors import Stall
    from kv.oracles import Index, trace_lines
    from kv.refmodels import json_eq_mod_null
    from kv.world import run_world

    Stall.take_hits()
    rng = random.Random(case['seed'])
    viol: list[dict[str, Any]] = []
    cov: dict[str, int] = {}
    if case['variant'] == 'two':
        return run_two_operators(case, rng)
    handlers = [
        {'kind': 'create', 'id': 'c1'},
        {'kind': 'update', 'id': 'u1', 'script': [['temp', 0.5]] if rng.random() < 0.5 else []},
        {'kind': 'update', 'id': 'uf', 'opts': {'field': 'spec.a'}},
        {'kind': 'update', 'id': 'ug', 'opts': {'field': 'spec.deep.x'}},
        {'kind': 'field', 'id': 'fl', 'opts': {'field': 'metadata.labels'}},
        {'kind': 'field', 'id': 'fs', 'opts': {'field': 'spec'}},
        {'kind': 'update', 'id': 'ust', 'opts': {'field': 'status.observed'}},
    ]
    # the object as created: usually with a payload, sometimes with NOTHING essential at all (no spec, no labels, no ordinary annotations: its
    # essence is the empty mapping -- a falsy value), or with a status only
    body0 = rng.choice([{'spec': {'a': 1, 'deep': {'x': 1, 'y': [1]}}, 'metadata': {'labels': {'l': '1'}}}] * 3 + [{}, {'status': {'observed': 1}}, {'spec': {}}])
    tl: list[list[Any]] = [[0, 'start', 'op1'], [1, 'create', 'o', body0]]
    t = 3.0
    for k in range(rng.randint(3, 8)):
        t = round(t + rng.choice([0.2, 1.0, 3.0]), 3)
        patch = rng.choice([
            {'spec': {'a': rng.choice([1, 2, None, {'n': 1}, [1, 2], True, 0])}},
            {'spec': {'deep': {'x': rng.choice([1, 2, None, {'z': {}}])}}},
            {'spec': {'deep': rng.choice([None, {'x': 5}, {}])}},
            {'metadata': {'labels': {'l': rng.choice(['1', '2', None]), 'm': rng.choice(['x', None])}}},
            {'status': {'observed': rng.choice([1, 2, {'deep': True}, None])}},
            {'spec': None},
            {'spec': None, 'metadata': {'labels': None}},        # nothing essential is left
            {'spec': {'b': {'ключ': 'значение', 'x.y': 1, 'p/q': None}}},
        ])
        tl.append([t, 'edit', 'o', patch])
    desc = {'seed': case['seed'], 'handlers': handlers, 'timeline': tl, 'quiet': 10.0, 'horizon': 300.0,
            'storage': rng.choice(['default', 'status', 'annotations']), 'prefix': rng.choice([None, 'my.example.com']) ,
            'resources': rng.choice(['kex', 'kex_s']), 'lifecycle': rng.choice([None, 'all_at_once']),
            'settings': {'queueing__idle_timeout': 1.0, 'persistence__consistency_timeout': 2.0}}
    if desc['storage'] == 'status':
        desc['prefix'] = None
    w = run_world(desc)
    ix = Index(w)
    n = 0
    for c in ix.calls:
        if c['kind'] in ('create', 'update', 'field') and 'diff' in c:
            n += 1
            old, new, diff = c.get('old'), c.get('new'), c.get('diff') or []
            got = apply_diff([(d[0], tuple(d[1]), d[2], d[3]) for d in diff], old)
            from kv.refmodels import _strip_nulls
            if not json_eq_mod_null(got, new):
                viol.append({'mech': 'bool-int-conflation' if _strip_nulls(got) == _strip_nulls(new) else 'handler-diff-unsound', 'msg': f"{c['h']}: applying the diff kwarg to the old kwarg does not give the new kwarg",
                             'witness': {'old': old, 'new': new, 'diff': diff, 'applied': got}})
            if not diff and not json_eq_mod_null(old, new) and c['kind'] != 'create':
                viol.append({'mech': 'bool-int-conflation' if _strip_nulls(old) == _strip_nulls(new) else 'handler-diff-incomplete', 'msg': f"{c['h']}: empty diff kwarg although old != new", 'witness': {'old': old, 'new': new}})
            spec = ix.specs[c['h']]
            f = (spec.get('opts') or {}).get('field')
            if f and c['kind'] != 'create':
                # narrowed values are the field's values in the whole-object essences given to a sibling whole-object handler of the same pass
                body = w.body_at(c['uid'], c['rv'])
                want_new = resolve(body, tuple(f.split('.')))
                if not json_eq_mod_null(new, want_new) and not f.startswith('status'):
                    viol.append({'mech': 'handler-new-mismatch', 'msg': f"{c['h']}: new kwarg for field {f} is {new!r} but the object it was invoked for has {want_new!r}", 'witness': None})
    # handling never triggers itself: the object is created once and never re-created, so its creation is handled once; and every update
    # cycle answers an external essential edit (status edits and the operator's own writes are none)
    creates = [c for c in ix.calls if c['h'] == 'c1']
    if len(creates) > 1:
        viol.append({'mech': 'self-trigger', 'msg': f"the creation handler ran {len(creates)} times for an object created once (views rv={[c['rv'] for c in creates][:6]}): "
                                                   f"handling was triggered by something that is not an essential change", 'witness': {'body0': body0}})
    ext = sum(1 for op in tl if op[1] == 'edit')      # (status.observed is a field of interest of a registered handler here, hence part of the essence)
    u_ok = sum(1 for r in ix.rets.values() if r['h'] == 'u1' and r['outcome'] == 'ok')
    if u_ok > ext:
        viol.append({'mech': 'self-trigger', 'msg': f"the whole-object update handler completed {u_ok} times for {ext} external edits", 'witness': None})
    if json_eq_mod_null(body0.get('spec') or {}, {}) and not (body0.get('metadata') or {}).get('labels'):
        cov['empty_essence_objects'] = 1
    for s in Stall.take_hits():
        viol.append({'mech': 'stall', 'msg': 'event loop stalled', 'witness': s})
    cov['loop_calls_with_diff'] = n
    sig = hashlib.sha1(';'.join(f"{c['h']}:{json.dumps(c.get('diff'), default=str)}" for c in ix.calls).encode()).hexdigest()[:16]
    return {'violations': viol, 'cov': cov, 'sig': sig, 'nontrivial': n > 2, 'sample': None, 'trace': trace_lines(w) if case.get('_verbose') else None}


def run_two_operators(case: dict[str, Any], rng: random.Random) -> dict[str, Any]:
    """Two Kopf-based operators with different prefixes on the same objects: bounded writes, one handling per external change."""
    import asyncio
    from kv.driver import Sim
    from kv.monitors import Stall
    from kv.recorder import build_registry
    from kv.world import make_storage

    sim = Sim(seed=case['seed'])
    sim.max_calls = 600      # two operators, two objects, a handful of edits: a few dozen handler calls; a ping-pong is cut short (runaway) instead of grinding to the horizon
    pfx_a, pfx_b = rng.choice([('kopf.zalando.org', 'b-op.example.org'), ('a-op.example.com', 'b-op.example.org'), ('a-op.example.com', 'kopf.zalando.org')])
    sa = rng.choice(['default', 'annotations'])
    regs = {}
    for nm in ('A', 'B'):
        regs[nm] = build_registry(sim.rec, [
            {'kind': 'create', 'id': f'c{nm}', 'script': [['temp', 0.5]] if rng.random() < 0.5 else []},
            {'kind': 'update', 'id': f'u{nm}', 'script': [['temp', 0.5], ['ok', {'seen': 1}]] if rng.random() < 0.5 else []},
            {'kind': 'delete', 'id': f'd{nm}'},
        ])
    edits = rng.randint(1, 4)
    viol: list[dict[str, Any]] = []
    state = {'quiesced': None}

    async def scenario(sim: Sim) -> None:
        ops = []
        for nm, pfx in (('A', pfx_a), ('B', pfx_b)):
            s = sim.settings(queueing__idle_timeout=1.0, persistence__consistency_timeout=2.0)
            make_storage(s, 'annotations' if pfx != 'kopf.zalando.org' else sa if sa == 'default' else 'annotations', pfx)
            ops.append(sim.operator(nm, regs[nm], s).start())
        await sim.sleep(1.0)
        sim.kube.create('kopfexamples', 'ns1', 'o', {'apiVersion': 'kopf.dev/v1', 'kind': 'KopfExample', 'spec': {'x': 0}})
        t = 1.0
        for k in range(edits):
            t += rng.choice([3.0, 6.0])
            await sim.sleep_until(round(t, 3))
            sim.kube.edit('kopfexamples', 'ns1', 'o', {'spec': {'x': k + 1}})
        state['quiesced'] = await sim.quiesce(15.0, sim.now() + 300.0)
        state['writes_at_quiescence'] = len([r for r in sim.kube.requests if r.kind == 'patch'])
        for op in ops:
            await op.stop_and_wait(120.0)

    sim.run(scenario)
    if not state['quiesced']:
        viol.append({'mech': 'ping-pong', 'msg': f'two operators (prefixes {pfx_a}, {pfx_b}) never stop writing to the object', 'witness': None})
    for nm in ('A', 'B'):
        ok_c = [r for r in sim.rec.rets(h=f'c{nm}') if r['outcome'] == 'ok']
        ok_u = [r for r in sim.rec.rets(h=f'u{nm}') if r['outcome'] == 'ok']
        if len(ok_c) != 1:
            viol.append({'mech': 'ping-pong', 'msg': f'operator {nm}: creation handler succeeded {len(ok_c)} times for one object', 'witness': None})
        if len(ok_u) > edits:
            viol.append({'mech': 'ping-pong', 'msg': f'operator {nm}: update handler succeeded {len(ok_u)} times for {edits} external changes '
                         f'(prefixes {pfx_a}, {pfx_b})', 'witness': [r['t'] for r in ok_u]})
    for s in Stall.take_hits():
        viol.append({'mech': 'stall', 'msg': 'event loop stalled', 'witness': s})
    n_calls = len(sim.rec.calls())
    sig = hashlib.sha1(f"{pfx_a}{pfx_b}{edits}{[c['h'] for c in sim.rec.calls()]}".encode()).hexdigest()[:16]
    return {'violations': viol, 'cov': {'two_operator_runs': 1, 'two_operator_calls': n_calls}, 'sig': sig, 'nontrivial': True,
            'sample': {'prefixes': [pfx_a, pfx_b], 'edits': edits, 'handler_calls': [(round(c['t'], 3), c['inc'], c['h']) for c in sim.rec.calls()][:20]} if case['name'] == 'loop0' else None}

"""
C06 -- the finalizer is never released early, always released eventually.
"""
from __future__ import annotations

import copy
import hashlib
import random
from typing import Any

ID = 'C06'
LEVEL = 'exploration'
STALL = True
TIMEOUT_PER_CASE = 180.0
TECHNIQUE = ('runtime monitoring: offline safety + bounded-liveness oracle over every server-side version transition written by the operator (finalizer list, '
             'writer, JSON-patch test op), correlated with recorded delete-handler outcomes and daemon/timer run intervals; 422 conflicts produced by '
             'foreign writes slipped in right before the operator\'s JSON-patch requests')
LEVEL_TEXT = ('Held on the explored interleavings of deletion requests (in every phase), label toggles, foreign finalizer edits (before/after the framework\'s entry), '
              'handler failures, optimistic-concurrency conflicts (a foreign write slipped before each JSON-patch -> 422 -> retry), daemons of four personas with '
              'backoff/timeout settings, graceful restarts and kills. Liveness is bounded: release within polling+consistency timeout+lag after the last blocker '
              'ended; object gone (or only foreign finalizers left) at quiescence.')
LEVEL_NOTE = ('Required-handler sets are evaluated on the server-side labels of the last versions before the release (any of them may have been the operator\'s view), '
              'which makes the safety oracle lenient around simultaneous label toggles. Daemon abandonment is judged against the documented lower bound '
              'mark time + backoff + timeout.')
RULE = ("scenarios: 1-2 objects; 0-2 delete handlers (optional/mandatory, label-filtered or not, failing scripts), 0-2 daemons (obedient/lingering/stubborn/swallowing, "
        "backoff/timeout in {None,1,3}x{None,2,5}), 0-1 timers; actor: label toggles, foreign finalizer add/remove, deletes, forced finalizer removal; slip writes before "
        "the k-th JSON-patch; restarts/kills. non-trivial = a finalizer release happened with a daemon or delete handler involved, or a 422 was answered; distinct = hash of "
        "(finalizer-list history, handler outcome sequence)")
ASSUMPTIONS = ["fake API server finalizer/deletion semantics (incl. both DELETED-event quirks)", "watch lag below the consistency timeout"]
GATES = {'releases_checked': 100, 'releases_with_daemons': 10, 'conflict_422_then_retry': 5, 'foreign_finalizer_between_read_and_write': 5,
         'kopf_writes_checked': 500, 'abandonments_reached': 1, 'nondeleting_releases': 3}

FIN_FOREIGN = ['other/fin', 'zzz.example.com/protect']


def rnd_desc(rng: random.Random, i: int) -> dict[str, Any]:
    handlers: list[dict[str, Any]] = [{'kind': 'create', 'id': 'c1', 'script': rng.choice([[], [['temp', 1]]])}]
    if rng.random() < 0.5:
        handlers.append({'kind': 'update', 'id': 'u1', 'script': rng.choice([[], [['temp', 1]]])})
    for j in range(rng.choice([0, 1, 1, 2])):
        h: dict[str, Any] = {'kind': 'delete', 'id': f'd{j + 1}', 'script': rng.choice([[], [['temp', 1], ['ok']], [['arb'], ['temp', 2]], [['perm']], [['slow', 1.5, ['ok']]],
                                                                                   [['ok', {'r': 1}], ['ok', {'r': 1}], ['ok', {'r': 1}]]]), 'opts': {}}
        if rng.random() < 0.3:
            h['opts']['optional'] = True
        if rng.random() < 0.35:
            h['opts']['labels'] = {'l': 'a'}
        handlers.append(h)
    for j in range(rng.choice([0, 0, 1, 1, 2])):
        persona = rng.choice([{'type': 'obedient'}, {'type': 'linger', 'linger': rng.choice([0.5, 2.5])}, {'type': 'stubborn'},
                              {'type': 'swallow', 'n': 1, 'linger': rng.choice([1.0, 4.0])}, {'type': 'selfexit', 'after': rng.choice([1.0, 6.0])}])
        opts: dict[str, Any] = {}
        b, t = rng.choice([None, 1, 3]), rng.choice([None, 2, 5])
        if persona['type'] in ('stubborn', 'swallow') and t is None:
            t = rng.choice([2, 5])   # a daemon that needs cancellation must get one, else the object never goes (documented)
        if b is not None:
            opts['cancellation_backoff'] = b
        if t is not None:
            opts['cancellation_timeout'] = t
        if rng.random() < 0.3:
            opts['labels'] = {'l': 'a'}
        handlers.append({'kind': 'daemon', 'id': f'dm{j + 1}', 'persona': persona, 'opts': opts})
    if rng.random() < 0.3:
        handlers.append({'kind': 'timer', 'id': 'tm1', 'opts': {'interval': rng.choice([1.0, 3.0])}, 'script': [['slow', rng.choice([0.0, 0.5, 2.0]), ['ok']]] * 50})
    names = ['o0'] if rng.random() < 0.7 else ['o0', 'o1']
    tl: list[list[Any]] = [[0.0, 'start', 'op1']]
    t0 = rng.choice([0.0, 1.0])
    for n in names:
        meta: dict[str, Any] = {}
        if rng.random() < 0.6:
            meta['labels'] = {'l': 'a'}
        if rng.random() < 0.3:
            meta['finalizers'] = [rng.choice(FIN_FOREIGN)]
        tl.append([round(t0 + rng.uniform(0, 1), 3), 'create', n, {'spec': {'x': 0}, 'metadata': meta}])
    t = t0 + 2
    for k in range(rng.randint(1, 6)):
        t = round(t + rng.choice([0.1, 0.5, 1.0, 2.0, 4.0]), 3)
        n = rng.choice(names)
        r = rng.random()
        if r < 0.25:
            tl.append([t, 'edit', n, {'metadata': {'labels': {'l': rng.choice(['a', 'b', None])}}}])
        elif r < 0.45:
            tl.append([t, 'fin_add', n, rng.choice(FIN_FOREIGN), rng.choice([0, None])])
        elif r < 0.6:
            tl.append([t, 'fin_del', n, rng.choice(FIN_FOREIGN)])
        elif r < 0.7:
            tl.append([t, 'edit', n, {'spec': {'x': k + 1}}])
        elif r < 0.95:
            tl.append([t, 'delete', n])
        else:
            tl.append([t, 'force_remove', n])
    # make sure every object is eventually deleted and foreign finalizers go away, so that "eventually" can be judged
    t = round(t + rng.choice([0.5, 3.0]), 3)
    keep_alive = rng.random() < 0.3      # some objects stay: the finalizer's presence is judged on live objects too
    for n in names:
        if keep_alive and not any(op[1] in ('delete', 'force_remove') and op[2] == n for op in tl):
            continue
        tl.append([t, 'delete', n])
        for f in FIN_FOREIGN:
            tl.append([round(t + rng.choice([0.2, 2.0, 8.0]), 3), 'fin_del', n, f])
    if rng.random() < 0.25:
        ts = round(rng.uniform(1.0, t), 3)
        tl.append([ts, 'stop_wait', 'op1'])
        tl.append([round(ts + rng.choice([0.2, 2.0]), 3), 'start', 'op2'])
    tl.sort(key=lambda x: x[0])
    desc: dict[str, Any] = {
        'seed': rng.randrange(1 << 30), 'handlers': handlers, 'timeline': tl, 'quiet': 30.0, 'horizon': 800.0,
        'storage': rng.choice(['default', 'default', 'annotations', 'status']), 'resources': rng.choice(['kex', 'kex_s']),
        'settings': {'queueing__idle_timeout': rng.choice([0.5, 2.0]), 'persistence__consistency_timeout': 2.0, 'execution__default_backoff': 1.5,
                     'background__cancellation_polling': 2.0},
        'kube': {'del_keep_finalizer': rng.random() < 0.5, 'del_bump_patch_rv': rng.random() < 0.5},
        'lag': {'values': rng.choice([[0.0], [0.0, 0.05], [0.0, 0.3]])}, 'post_yields': rng.choice([0, 0, 2]),
        # NB: while daemons are stopping kopf re-runs the deletion handlers in a loop at the speed of the API (DESIGN, O1);
        # a realistic request latency keeps that loop to hundreds instead of millions of iterations.
        'latency': 0.005,
    }
    if desc['storage'] == 'annotations':
        desc['prefix'] = 'my-op.example.com'
    if rng.random() < 0.5:
        # a foreign write slipped right before the k-th JSON-patch request of the operator -> 422
        slip = rng.choice([['edit', 'o0', {'metadata': {'labels': {'slip': str(i)}}}], ['fin_add', 'o0', 'slip/fin', rng.choice([0, None])], ['edit', 'o0', {'status': {'slip': i}}]])
        # ... or before the k-th merge-patch (which may precede a JSON-patch of the same cycle: index shifts in the finalizer list)
        ctype = rng.choice(['application/json-patch+json', 'application/json-patch+json', 'application/merge-patch+json'])
        desc['faults'] = [{'client': None, 'match': {'kind': 'patch', 'ctype': ctype}, 'nth': rng.choice([1, 2, 3, [1, 2], [2, 3, 4], [3, 4, 5, 6]]),
                           'actions': [['slip', {'op': slip}]]}]
        tl.append([round(t + 10, 3), 'fin_del', 'o0', 'slip/fin'])
    if 'faults' not in desc and rng.random() < 0.2 and not any(op[1] == 'stop_wait' for op in tl):
        desc['faults'] = [{'client': 'op1', 'match': {'kind': 'patch', 'plural': 'kopfexamples'}, 'nth': rng.randint(1, 8), 'actions': [[rng.choice(['kill_before', 'kill_after']), {}]]}]
        desc['restart_after_kill'] = {'delay': rng.choice([0.5, 3.0]), 'max': 1}
    return desc


def directed() -> list[dict[str, Any]]:
    S = {'queueing__idle_timeout': 1.0, 'persistence__consistency_timeout': 2.0, 'execution__default_backoff': 1.5, 'background__cancellation_polling': 2.0}
    out = []
    # a stubborn daemon with backoff+timeout: flag, cancel at +backoff, then exits; delete handler retried meanwhile
    out.append({'name': 'daemon-stages', 'settings': S, 'quiet': 30.0, 'horizon': 500.0, 'handlers': [
        {'kind': 'create', 'id': 'c1'}, {'kind': 'delete', 'id': 'd1', 'script': [['temp', 1], ['ok']]},
        {'kind': 'daemon', 'id': 'dm1', 'persona': {'type': 'stubborn'}, 'opts': {'cancellation_backoff': 3, 'cancellation_timeout': 5}}],
        'timeline': [[0, 'start', 'op1'], [1, 'create', 'a', {'spec': {'x': 0}}], [5, 'delete', 'a']]})
    # a swallowing daemon which outlives its timeout -> abandonment, only then release
    out.append({'name': 'abandon', 'settings': S, 'quiet': 30.0, 'horizon': 500.0, 'handlers': [
        {'kind': 'create', 'id': 'c1'},
        {'kind': 'daemon', 'id': 'dm1', 'persona': {'type': 'swallow', 'n': 1, 'linger': 20.0}, 'opts': {'cancellation_backoff': 1, 'cancellation_timeout': 2}}],
        'timeline': [[0, 'start', 'op1'], [1, 'create', 'a', {'spec': {'x': 0}}], [5, 'delete', 'a']]})
    # 422 on the finalizer removal, foreign finalizer inserted in front at that very moment
    for nth in (1, 2, 3):
        out.append({'name': f'conflict{nth}', 'settings': S, 'quiet': 30.0, 'horizon': 500.0, 'handlers': [
            {'kind': 'create', 'id': 'c1'}, {'kind': 'delete', 'id': 'd1'}],
            'timeline': [[0, 'start', 'op1'], [1, 'create', 'a', {'spec': {'x': 0}, 'metadata': {'finalizers': ['other/fin']}}], [5, 'delete', 'a'], [9, 'fin_del', 'a', 'other/fin'],
                         [12, 'fin_del', 'a', 'slip/fin']],
            'faults': [{'client': None, 'match': {'kind': 'patch', 'ctype': 'application/json-patch+json'}, 'nth': nth, 'actions': [['slip', {'op': ['fin_add', 'a', 'slip/fin', 0]}]]}]})
    # a foreign finalizer is inserted IN FRONT while the (slow) deletion handler runs: the release must not remove it by index
    out.append({'name': 'index-shift', 'settings': S, 'quiet': 30.0, 'horizon': 500.0, 'handlers': [
        {'kind': 'create', 'id': 'c1'}, {'kind': 'delete', 'id': 'd1', 'script': [['slow', 1.5, ['ok']]]}],
        'timeline': [[0, 'start', 'op1'], [1, 'create', 'a', {'spec': {'x': 0}}], [5, 'delete', 'a'], [5.5, 'fin_add', 'a', 'other/fin', 0], [20, 'fin_del', 'a', 'other/fin']]})
    for nth in (2, 3, 4, 5):
        out.append({'name': f'index-shift-slip{nth}', 'settings': S, 'quiet': 30.0, 'horizon': 500.0, 'handlers': [
            {'kind': 'create', 'id': 'c1'}, {'kind': 'delete', 'id': 'd1', 'script': [['temp', 1], ['ok']]}],
            'timeline': [[0, 'start', 'op1'], [1, 'create', 'a', {'spec': {'x': 0}}], [5, 'delete', 'a'], [20, 'fin_del', 'a', 'slip/fin']],
            'faults': [{'client': None, 'match': {'kind': 'patch', 'ctype': 'application/merge-patch+json'}, 'nth': nth, 'actions': [['slip', {'op': ['fin_add', 'a', 'slip/fin', 0]}]]}]})
    # a deletion handler with a (repeatable) result next to a daemon that needs several re-checks to exit: the deletion is released in the end
    for storage in ('default', 'status'):
        out.append({'name': f'result-while-daemon-exits-{storage}', 'settings': S, 'storage': storage, 'quiet': 30.0, 'horizon': 500.0, 'handlers': [
            {'kind': 'create', 'id': 'c1'}, {'kind': 'delete', 'id': 'd1', 'script': [['ok', {'r': 1}], ['ok', {'r': 1}], ['ok', {'r': 1}]]},
            {'kind': 'daemon', 'id': 'dm1', 'persona': {'type': 'linger', 'linger': 5.0}, 'opts': {}}],
            'timeline': [[0, 'start', 'op1'], [1, 'create', 'a', {'spec': {'x': 0}}], [5, 'delete', 'a']]})
    # a daemon that exits on its own is no reason to keep the finalizer on a live object
    out.append({'name': 'selfexit-live', 'settings': S, 'quiet': 30.0, 'horizon': 500.0, 'handlers': [
        {'kind': 'create', 'id': 'c1'}, {'kind': 'daemon', 'id': 'dm1', 'persona': {'type': 'selfexit', 'after': 3.0}}],
        'timeline': [[0, 'start', 'op1'], [1, 'create', 'a', {'spec': {'x': 0}}], [8, 'edit', 'a', {'spec': {'x': 1}}]]})
    # a finalizer decision that met a write conflict (422) earlier in this process must not come back later: the handlers stop requiring the object (label off),
    # the removal conflicts with a foreign write and succeeds on the next pass; the label comes back (finalizer added anew) and, in one variant, the object is
    # then deleted: the deletion handler runs and the finalizer stays until it has finished. The same with the conflict on the ADDING patch.
    for nth in (1, 2):
        for then_delete in (False, True):
            for kind_req in ('delete', 'daemon'):
                req = ({'kind': 'delete', 'id': 'd1', 'script': [['temp', 1], ['ok']], 'opts': {'labels': {'l': 'a'}}} if kind_req == 'delete' else
                       {'kind': 'daemon', 'id': 'dm1', 'persona': {'type': 'obedient'}, 'opts': {'labels': {'l': 'a'}}})
                tl = [[0, 'start', 'op1'], [1, 'create', 'a', {'spec': {'x': 0}, 'metadata': {'labels': {'l': 'a'}}}], [5, 'edit', 'a', {'metadata': {'labels': {'l': 'b'}}}],
                      [10, 'edit', 'a', {'metadata': {'labels': {'l': 'a'}}}], [15, 'edit', 'a', {'spec': {'x': 1}}]]
                if then_delete:
                    tl.append([20, 'delete', 'a'])
                out.append({'name': f'conflict-then-rematch-n{nth}-d{int(then_delete)}-{kind_req}', 'settings': S, 'quiet': 30.0, 'horizon': 500.0,
                            'handlers': [{'kind': 'create', 'id': 'c1'}, req], 'timeline': tl,
                            'faults': [{'client': None, 'match': {'kind': 'patch', 'ctype': 'application/json-patch+json'}, 'nth': nth,
                                        'actions': [['slip', {'op': ['edit', 'a', {'status': {'slipped': nth}}]}]]}]})
    # handlers stop requiring the object (label toggled off) -> finalizer removed without deletion; toggled on -> added again
    out.append({'name': 'unrequire', 'settings': S, 'quiet': 30.0, 'horizon': 500.0, 'handlers': [
        {'kind': 'create', 'id': 'c1'}, {'kind': 'delete', 'id': 'd1', 'opts': {'labels': {'l': 'a'}}},
        {'kind': 'daemon', 'id': 'dm1', 'persona': {'type': 'obedient'}, 'opts': {'labels': {'l': 'a'}}}],
        'timeline': [[0, 'start', 'op1'], [1, 'create', 'a', {'spec': {'x': 0}, 'metadata': {'labels': {'l': 'a'}}}], [5, 'edit', 'a', {'metadata': {'labels': {'l': 'b'}}}],
                     [10, 'edit', 'a', {'metadata': {'labels': {'l': 'a'}}}], [15, 'delete', 'a']]})
    return out


def _sync(desc: dict[str, Any], seed: int, i: int) -> dict[str, Any]:
    from kv.world import syncify
    return syncify(desc, random.Random(f'C06-sync-{seed}-{i}'))       # a share of the scenarios runs (some of) its handlers as threads


def gen_cases(tier: str, seed: int):
    rng = random.Random(f'C06-{seed}')
    cases = [{'name': d['name'], 'desc': dict(d, latency=0.005)} for d in directed()]
    n = 500 if tier == 'quick' else 20000
    for i in range(n):
        cases.append({'name': f'rnd{i}', 'desc': _sync(rnd_desc(rng, i), seed, i)})
    return cases


def matches(spec: dict[str, Any], labels: dict[str, str]) -> bool:
    flt = (spec.get('opts') or {}).get('labels') or {}
    return all(labels.get(k) == v for k, v in flt.items())


def run_case(case: dict[str, Any]) -> dict[str, Any]:
    from kv.monitors import Stall
    from kv.oracles import Index, trace_lines
    from kv.world import run_world

    Stall.take_hits()
    desc = case['desc']
    w = run_world(desc)
    ix = Index(w)
    sv = ix.sv
    viol: list[dict[str, Any]] = []
    cov: dict[str, int] = {k: 0 for k in GATES}
    for s in Stall.take_hits():
        viol.append({'mech': 'stall', 'msg': 'event loop stalled', 'witness': s})
    settings = desc.get('settings') or {}
    polling = float(settings.get('background__cancellation_polling', 60.0))
    ctimeout = float(settings.get('persistence__consistency_timeout', 5.0))
    maxlag = max((desc.get('lag') or {}).get('values', [0.0]))
    specs = ix.specs
    del_handlers = [h for h, s in specs.items() if s['kind'] == 'delete']
    bg_handlers = [h for h, s in specs.items() if s['kind'] in ('daemon', 'timer')]

    def kopf_fin(body: dict[str, Any] | None) -> bool:
        return sv.has_finalizer(body)

    def foreign(body: dict[str, Any] | None) -> list[str]:
        return [f for f in ((body or {}).get('metadata', {}).get('finalizers') or []) if f != sv.finalizer]

    # ---- every operator write: foreign finalizers untouched, JSON-patches guarded by a test op
    for r in ix.writes:
        if not r.client.startswith('op'):
            continue
        cov['kopf_writes_checked'] += 1
        before = w.body_at(r.landed_uid, r.prev_rv)
        after_versions = [v for v in w.history[r.landed_uid] if v['g'] > r.g and (r.g_done is None or v['g'] < r.g_done)]
        after = after_versions[-1]['body'] if after_versions else before
        fa = foreign(after)
        if after_versions and after_versions[-1]['type'] == 'DELETED':
            fa = [f for f in fa if f != sv.finalizer]
        if after_versions and after_versions[-1]['type'] == 'DELETED':
            # the object could only go because NO finalizer was left: compare with what the write removed
            fa = []
        if foreign(before) != fa:
            viol.append({'mech': 'foreign-finalizers-changed', 'msg': f"request #{r.idx} by {r.client} changed the finalizers owned by others: {foreign(before)} -> {fa}",
                         'witness': {'request': r.brief()}})
        if isinstance(r.payload, list) and r.payload:
            first = r.payload[0]
            if not (first.get('op') == 'test' and first.get('path') == '/metadata/resourceVersion'):
                viol.append({'mech': 'unguarded-json-patch', 'msg': f"JSON-patch request #{r.idx} does not start with a test on the resource version: {r.payload}", 'witness': None})
            elif str(first.get('value')) != str(r.prev_rv):
                viol.append({'mech': 'unguarded-json-patch', 'msg': f"JSON-patch request #{r.idx} was applied although its test op names version {first.get('value')} and the object was at {r.prev_rv}", 'witness': None})
    conflicts = [r for r in w.requests if r.kind == 'patch' and r.status == 422]
    for r in conflicts:
        later = [x for x in ix.writes if x.client == r.client and x.g > r.g and isinstance(x.payload, list)]
        if later:
            cov['conflict_422_then_retry'] += 1
        if r.fault and 'slip' in r.fault and 'fin_add' in str(desc.get('faults')):
            cov['foreign_finalizer_between_read_and_write'] += 1

    # ---- releases
    rets = ix.rets
    for uid in ix.uids:
        versions = w.history[uid]
        marked = [v for v in versions if v['body']['metadata'].get('deletionTimestamp')]
        t_mark = marked[0]['t'] if marked else None
        g_mark = marked[0]['g'] if marked else None
        for fr in ix.finalizer_removals(uid):
            cov['releases_checked'] += 1
            before = w.body_at(uid, fr.prev_rv)
            # what the operator may have been looking at when it decided: the last three versions and everything of the last second
            # (watch lag up to 0.3 s + request latencies); a handler must match ALL of them to count as requiring the finalizer
            prior = [v for v in versions if v['g'] < fr.g]
            recent = [v['body'] for v in prior if v in prior[-3:] or v['t'] >= fr.t - 1.0]
            label_sets = [(b['metadata'].get('labels') or {}) for b in recent] or [{}]
            deleting = bool(before and before['metadata'].get('deletionTimestamp'))
            inc = fr.client
            # background instances of this incarnation on this object that were running at the moment of the release
            running = []
            for c in ix.calls:
                if c['uid'] == uid and c['inc'] == inc and c['kind'] in ('daemon', 'timer') and c['g'] < fr.g:
                    rt = rets.get(c['seq'])
                    if rt is None or rt['g'] > fr.g:
                        running.append(c)
            if any(c['kind'] == 'daemon' for c in ix.calls if c['uid'] == uid and c['inc'] == inc and c['g'] < fr.g):
                cov['releases_with_daemons'] += 1
            if deleting:
                for c in running:
                    spec = specs[c['h']]
                    opts = spec.get('opts') or {}
                    if not all(matches(spec, labels) for labels in label_sets):
                        continue   # it stopped matching the object: it does not require the finalizer any more (statement, 2nd sentence)
                    if spec['kind'] == 'timer':
                        viol.append({'mech': 'released-while-timer-running', 'msg': f"{uid}: finalizer released by request #{fr.idx} at t={fr.t} while timer {c['h']} (started {c['t']}) was still running",
                                     'witness': None})
                        continue
                    timeout = opts.get('cancellation_timeout')
                    backoff = opts.get('cancellation_backoff') or 0
                    # the stages count from the moment the instance was first asked to stop, which can precede the deletion mark
                    # (it was already stopping for a filter mismatch or a pause)
                    rt0 = rets.get(c['seq'])
                    flagged = rt0.get('flag_seen_at') if rt0 else None
                    t_asked = min(t_mark or 0, flagged) if flagged is not None else (t_mark or 0)
                    if timeout is None or fr.t < t_asked + backoff + timeout - 1e-6:
                        viol.append({'mech': 'released-while-daemon-running', 'msg': f"{uid}: finalizer released by request #{fr.idx} at t={fr.t} while daemon {c['h']} (started {c['t']}) had neither "
                                     f"exited nor reached abandonment (marked {t_mark}, backoff {backoff}, timeout {timeout})", 'witness': None})
                    else:
                        cov['abandonments_reached'] += 1
                # mandatory delete handlers
                finals = {rt['h'] for rt in rets.values() if rt['uid'] == uid and rt['kind'] == 'delete' and (g_mark or 0) < rt['g'] <= fr.g and ix.is_final(rt)}
                for hrec in del_handlers:
                    if sv.record(before, hrec) and (sv.record(before, hrec).get('success') or sv.record(before, hrec).get('failure')):
                        finals.add(hrec)
                problems = []
                for labels in label_sets:
                    missing = [h for h in del_handlers if not (specs[h].get('opts') or {}).get('optional') and matches(specs[h], labels) and h not in finals]
                    problems.append(missing)
                if all(problems):
                    # was this release decided for an OLDER state and only carried over a write conflict (422) onto the newer one?
                    conflicted = [r for r in w.requests if r.client == inc and r.kind == 'patch' and r.name == fr.name and r.status == 422 and (g_mark or 0) < r.g < fr.g
                                  and isinstance(r.payload, list) and any(str(op.get('path', '')).startswith('/metadata/finalizers') for op in r.payload)]
                    # ... or decided for the state its cycle had started on, while the merge-patch that precedes the removal re-anchored the
                    # resourceVersion test to a version that already contains the foreign change (no conflict is ever seen then)
                    dcalls = [c for c in ix.calls if c['uid'] == uid and c['inc'] == inc and c['kind'] == 'delete' and c['g'] < fr.g]
                    view = w.body_at(uid, dcalls[-1]['rv']) if dcalls and dcalls[-1].get('rv') else None
                    view_labels = ((view or {}).get('metadata') or {}).get('labels') or {}
                    stale_view = view is not None and not [h for h in problems[-1] if matches(specs[h], view_labels)]
                    viol.append({'mech': 'release-carried-over-a-conflict-onto-newer-state' if conflicted else 'release-decided-on-older-state' if stale_view else 'released-before-delete-handlers', 'msg': f"{uid}: finalizer released by request #{fr.idx} while mandatory deletion handlers {problems[-1]} had no final outcome",
                                 'witness': {'write': fr.brief()}})
            else:
                cov['nondeleting_releases'] += 1
                exited_own = {c['h'] for c in ix.calls if c['uid'] == uid and c['inc'] == inc and c['kind'] in ('daemon',) and c['seq'] in rets
                              and rets[c['seq']]['g'] < fr.g and rets[c['seq']]['outcome'] == 'ok' and not rets[c['seq']].get('stopped_flag')}
                problems = []
                for labels in label_sets:
                    req = [h for h in del_handlers if not (specs[h].get('opts') or {}).get('optional') and matches(specs[h], labels)]
                    req += [h for h in bg_handlers if matches(specs[h], labels) and h not in exited_own]
                    problems.append(req)
                if all(problems):
                    viol.append({'mech': 'released-while-required', 'msg': f"{uid}: finalizer removed by request #{fr.idx} from an object that is not being deleted although {problems[-1]} still require it",
                                 'witness': {'labels': label_sets}})
        # ---- bounded liveness for deletions
        if marked and w.quiesced:
            gq = next((e['g'] for e in w.events if e['k'] == 'note' and e['what'] == 'quiesced'), 1 << 60)
            last = [v for v in versions if v['g'] <= gq][-1]
            alive_ops = [i for i in w.incs.values() if not i.killed and i.t_start is not None and (i.t_end is None or i.t_end >= (w.t_quiesced or 0))]
            if alive_ops and last['type'] != 'DELETED' and kopf_fin(last['body']):
                viol.append({'mech': 'finalizer-never-released', 'msg': f"{uid}: marked for deletion at t={t_mark} but still held by the framework's finalizer at quiescence (t={w.t_quiesced})",
                             'witness': {'finalizers': last['body']['metadata'].get('finalizers')}})
        # ---- presence at quiescence for live objects
        if w.quiesced:
            gq = next((e['g'] for e in w.events if e['k'] == 'note' and e['what'] == 'quiesced'), 1 << 60)
            vs = [v for v in versions if v['g'] <= gq]
            alive_ops = [i for i in w.incs.values() if not i.killed and i.t_start is not None and (i.t_end is None or i.t_end >= (w.t_quiesced or 0))]
            if vs and alive_ops and vs[-1]['type'] != 'DELETED' and not vs[-1]['body']['metadata'].get('deletionTimestamp'):
                body = vs[-1]['body']
                labels = body['metadata'].get('labels') or {}
                inc = alive_ops[-1].name
                exited_own = {c['h'] for c in ix.calls if c['uid'] == uid and c['inc'] == inc and c['kind'] == 'daemon' and c['seq'] in rets
                              and rets[c['seq']]['outcome'] == 'ok' and not rets[c['seq']].get('stopped_flag')}
                req = [h for h in del_handlers if not (specs[h].get('opts') or {}).get('optional') and matches(specs[h], labels)]
                req += [h for h in bg_handlers if matches(specs[h], labels) and h not in exited_own]
                # a daemon that has exited on its own still "matches" the object; nothing re-evaluates the finalizer until the next event of
                # the object (and then it is released): both states are acceptable for a live object in that case
                # ... but only until the next event: a version written after the exit means an event was processed since, which re-evaluates it
                t_exit = {c['h']: rets[c['seq']]['t'] for c in ix.calls if c['uid'] == uid and c['inc'] == inc and c['kind'] == 'daemon' and c['seq'] in rets and c['h'] in exited_own}
                req_loose = req + [h for h in bg_handlers if matches(specs[h], labels) and h in exited_own
                                   and not any(v['t'] > t_exit.get(h, 0.0) + 0.05 and v['g'] <= gq for v in versions)]
                if bool(req) != kopf_fin(body) and bool(req_loose) != kopf_fin(body):
                    viol.append({'mech': 'finalizer-presence', 'msg': f"{uid}: at quiescence the framework's finalizer is {'present' if kopf_fin(body) else 'absent'} although "
                                 f"{'handlers ' + str(req) + ' require it' if req else 'no handler requires it'}", 'witness': {'labels': labels, 'finalizers': body['metadata'].get('finalizers')}})
    # ---- change handlers never run before the finalizer is in place (when it is required for the view they run on)
    for c in ix.calls:
        if c['kind'] in ('create', 'update', 'resume') and not c.get('post_mortem') and not c['deleting']:
            labels = c.get('labels') or {}
            req = [h for h in del_handlers if not (specs[h].get('opts') or {}).get('optional') and matches(specs[h], labels)]
            req += [h for h in bg_handlers if matches(specs[h], labels)]
            if req and sv.finalizer not in c['finalizers']:
                exited = {x['h'] for x in ix.calls if x['uid'] == c['uid'] and x['inc'] == c['inc'] and x['kind'] == 'daemon' and x['seq'] in rets and rets[x['seq']]['g'] < c['g']
                          and rets[x['seq']]['outcome'] == 'ok' and not rets[x['seq']].get('stopped_flag')}
                if [h for h in req if h not in exited]:
                    viol.append({'mech': 'handler-before-finalizer', 'msg': f"{c['h']} ran on {c['uid']} (rv={c['rv']}) without the framework's finalizer although {req} require it", 'witness': None})
    if w.quiesced is False:
        viol.append({'mech': 'no-quiescence', 'msg': 'the operator kept writing until the horizon', 'witness': [r.brief() for r in w.requests[-5:]]})
    fin_hist = ';'.join(str(v['body']['metadata'].get('finalizers')) for uid in ix.uids for v in w.history[uid])
    sig = hashlib.sha1((fin_hist + ';'.join(f"{c['h']}" for c in ix.calls)).encode()).hexdigest()[:16]
    sample = None
    if case['name'] in ('daemon-stages', 'rnd0'):
        sample = {'name': case['name'], 'timeline': desc['timeline'], 'handlers': desc['handlers'], 'trace_tail': trace_lines(w)[-14:]}
    return {'violations': viol, 'cov': cov, 'sig': sig, 'nontrivial': cov['releases_checked'] > 0 and (cov['releases_with_daemons'] > 0 or bool(del_handlers) or cov['conflict_422_then_retry'] > 0),
            'sample': sample, 'trace': trace_lines(w) if case.get('_verbose') else None}

"""
C05 -- each event maps to exactly one cause; handler kinds are mutually exclusive.

(a) exhaustive decision table on the real detect_changing_cause (4 event types x 2^5 state bits = 128 cases);
(b) composition in the closed loop: a recording contract on detect_changing_cause + handler call records, judged
    against the server-side history with an independent essence function.
"""
from __future__ import annotations

import copy
import hashlib
import random
from typing import Any

ID = 'C05'
LEVEL = 'exploration'
STALL = True
TIMEOUT_PER_CASE = 120.0
TECHNIQUE = ('runtime monitoring: recording contract on the real cause detector during whole-operator runs, judged offline against the fake '
             'server\'s object history with an independent essence/decision-table model; plus exhaustive enumeration of the 128-entry decision table')
LEVEL_TEXT = ('The pure classifier is enumerated exhaustively (128/128 input combinations against an independently written precedence table). '
              'What the unit tests mock away -- that the inputs fed to the classifier in a real run (deletion mark, finalizer, stored state, essential '
              'difference, first-sight flag) agree with the server-side truth, and that only the matching handler kind runs after each classification -- '
              'is held on the closed-loop executions explored (all 7 causes observed).')
LEVEL_NOTE = ('Trusted: fake API server; independent essence function restricted to spec/labels/plain annotations bodies; the first-sight flag is '
              'taken from the contract record (it is process-internal) but its effect (resume only once, only after a listing) is cross-checked by C14.')
RULE = ("table: all 4x2^5 combinations (exhaustive). closed loop: scenarios as in C02 plus foreign finalizers, forced finalizer removal, deletions in every "
        "phase, resume handlers (with/without deleted=True), optional delete handlers; non-trivial = at least 3 different causes in the run; distinct = hash "
        "of the sequence of (cause, handler kinds invoked)")
ASSUMPTIONS = ["essence of scenario bodies is spec + labels + ordinary annotations", "fake API server semantics"]
GATES = {'reason_create': 1, 'reason_update': 1, 'reason_delete': 1, 'reason_resume': 1, 'reason_noop': 1, 'reason_free': 1, 'reason_gone': 1,
         'table_cases': 128, 'detects_checked': 200, 'calls_checked': 200, 'repo_test_cause_evaluations': 0}


def gen_cases(tier: str, seed: int):
    from kv.checks import c02
    rng = random.Random(f'C05-{seed}')
    cases: list[dict[str, Any]] = [{'name': 'table', 'mode': 'table'}]
    if tier != 'quick':
        cases.append({'name': 'repotests', 'mode': 'repotests'})     # the repository's own tests, run with the recording contract on
    for d in directed():
        cases.append({'name': d['name'], 'mode': 'loop', 'desc': d})
    n = 500 if tier == 'quick' else 20000
    for i in range(n):
        d = c02.random_desc(rng, i)
        mutate_desc(rng, d)
        cases.append({'name': f'rnd{i}', 'mode': 'loop', 'desc': d})
    return cases


def directed() -> list[dict[str, Any]]:
    base = {'settings': {'queueing__idle_timeout': 1.0, 'persistence__consistency_timeout': 2.0, 'execution__default_backoff': 1.5},
            'quiet': 15.0, 'horizon': 400.0}
    H = [{'kind': 'create', 'id': 'c1'}, {'kind': 'update', 'id': 'u1', 'script': [['temp', 1]]}, {'kind': 'delete', 'id': 'd1', 'script': [['temp', 1]]},
         {'kind': 'resume', 'id': 'r1'}, {'kind': 'resume', 'id': 'r2', 'opts': {'deleted': True}}]
    out = []
    # all seven causes in one life: create, noop (status edit), update, restart -> resume, delete, free (foreign finalizer keeps it), gone
    out.append(dict(base, name='seven', handlers=H, timeline=[
        [0, 'start', 'op1'], [1, 'create', 'a', {'spec': {'x': 1}}], [3, 'edit', 'a', {'status': {'s': 1}}], [5, 'edit', 'a', {'spec': {'x': 2}}],
        [10, 'stop_wait', 'op1'], [11, 'start', 'op2'], [14, 'fin_add', 'a', 'other/fin'], [15, 'delete', 'a'], [22, 'edit', 'a', {'metadata': {'labels': {'z': '1'}}}],
        [24, 'fin_del', 'a', 'other/fin']]))
    # object under deletion met at startup (resume with deleted=True only), and a never-handled object met at startup (create, not resume)
    out.append(dict(base, name='startup-mix', handlers=H, timeline=[
        [0, 'start', 'op1'], [1, 'create', 'a', {'spec': {'x': 1}}], [4, 'stop_wait', 'op1'], [5, 'delete', 'a'], [5.5, 'create', 'b', {'spec': {'x': 9}}],
        [6, 'start', 'op2']]))
    # an object whose essence is empty (no spec, no labels): stored state is '{}' -- present, but falsy
    out.append(dict(base, name='empty-essence', handlers=H, timeline=[
        [0, 'start', 'op1'], [1, 'create', 'e', {}], [3, 'edit', 'e', {'status': {'s': 1}}], [5, 'edit', 'e', {'status': {'s': 2}}],
        [8, 'stop_wait', 'op1'], [9, 'start', 'op2'], [12, 'edit', 'e', {'spec': {'x': 1}}], [15, 'edit', 'e', {'spec': None}], [20, 'delete', 'e']]))
    return out


def mutate_desc(rng: random.Random, d: dict[str, Any]) -> None:
    names = sorted({op[2] for op in d['timeline'] if op[1] == 'create'})
    extra = []
    tmax = max(op[0] for op in d['timeline'])
    for n in names:
        if rng.random() < 0.4:
            t = round(rng.uniform(0.5, tmax + 1), 3)
            extra.append([t, 'fin_add', n, 'other/fin'])
            if rng.random() < 0.7:
                extra.append([round(t + rng.uniform(1, 15), 3), 'fin_del', n, 'other/fin'])
        if rng.random() < 0.3:
            extra.append([round(rng.uniform(1, tmax + 3), 3), 'delete', n])
        if rng.random() < 0.1:
            extra.append([round(rng.uniform(1, tmax + 3), 3), 'force_remove', n])
    for h in d['handlers']:
        if h['kind'] == 'resume' and rng.random() < 0.5:
            h.setdefault('opts', {})['deleted'] = True
        if h['kind'] == 'delete' and rng.random() < 0.3:
            h.setdefault('opts', {})['optional'] = True
    if rng.random() < 0.15:
        for op in d['timeline']:
            if op[1] == 'create':
                op[3] = {}          # empty essence
    d['timeline'] = sorted(d['timeline'] + extra, key=lambda x: x[0])
    d.pop('faults', None)
    d.pop('restart_after_kill', None)


def run_case(case: dict[str, Any]) -> dict[str, Any]:
    if case['mode'] == 'table':
        return run_table()
    if case['mode'] == 'repotests':
        return run_repotests()
    return run_loop(case)


def run_repotests() -> dict[str, Any]:
    """The repository's own tests as a workload: every detect_changing_cause() call they make is compared with the reference table."""
    from kv.repotests import run_with_contracts
    rep = run_with_contracts()
    cov = {k: 0 for k in GATES}
    viol: list[dict[str, Any]] = []
    c = rep.get('cause') or {}
    cov['repo_test_cause_evaluations'] = int(c.get('evaluations', 0))
    for d in c.get('disagreements', []):
        viol.append({'mech': 'cause-table-disagreement-in-repo-tests', 'msg': f"a call made by {d.get('test')}: reference says {d['expected']}, detect_changing_cause() says {d['got']} for {d}", 'witness': d})
    return {'violations': viol[:5], 'cov': cov, 'sig': 'repotests', 'nontrivial': cov['repo_test_cause_evaluations'] > 0,
            'sample': {'report': {k: v for k, v in rep.items() if k in ('pytest_rc', 'pytest_tail', 'error')}, 'cause_evaluations': cov['repo_test_cause_evaluations']}}


def run_table() -> dict[str, Any]:
    import logging
    import kopf
    from kopf._cogs.structs import bodies, diffs, ephemera, patches
    from kopf._core.intents import causes
    from kv.refmodels import expected_reason
    FIN = 'fin/x'
    viol = []
    n = 0
    seen = set()
    for etype in (None, 'ADDED', 'MODIFIED', 'DELETED'):
        for deleting in (False, True):
            for hasfin in (False, True):
                for hasold in (False, True):
                    for differs in (False, True):
                        for initial in (False, True):
                            meta: dict[str, Any] = {'name': 'n', 'uid': 'u'}
                            if deleting:
                                meta['deletionTimestamp'] = '2030-01-01T00:00:00Z'
                            if hasfin:
                                meta['finalizers'] = ['zzz', FIN]
                            raw = {'metadata': meta, 'spec': {'x': 2}}
                            body = bodies.Body(raw)
                            new = {'spec': {'x': 2}}
                            old = ({'spec': {'x': 1}} if differs else {'spec': {'x': 2}}) if hasold else None
                            diff = diffs.diff(old, new)
                            cause = causes.detect_changing_cause(
                                finalizer=FIN, raw_event={'type': etype, 'object': raw}, resource=None, indices=ephemera.Indices() if hasattr(ephemera, 'Indices') and False else {},
                                logger=logging.getLogger('kv'), patch=patches.Patch(), body=body, old=old, new=new, diff=diff,
                                memo=ephemera.Memo(), initial=initial)
                            # NB: without a stored state there is nothing to differ from: "differs" is not an input then
                            exp = expected_reason(etype, deleting, hasfin, hasold, differs if hasold else True, initial)
                            n += 1
                            seen.add(str(cause.reason))
                            if str(cause.reason) != exp:
                                viol.append({'mech': 'table-mismatch', 'msg': f'event={etype} deleting={deleting} finalizer={hasfin} stored={hasold} differs={differs} '
                                             f'first-sight={initial}: classified {cause.reason}, expected {exp}', 'witness': None})
                            if exp == 'create' and cause.initial:
                                viol.append({'mech': 'create-keeps-initial', 'msg': f'creation cause keeps the first-sight flag (resume handlers would be mixed in): '
                                             f'event={etype} first-sight={initial}', 'witness': None})
    return {'violations': viol, 'cov': {'table_cases': n, 'table_reasons': len(seen)}, 'sig': 'table', 'nontrivial': True,
            'sample': {'table': '4 event types x deleting x finalizer x stored x differs x first-sight', 'cases': n}}


KIND_FOR_REASON = {'create': {'create'}, 'update': {'update'}, 'delete': {'delete'}, 'resume': {'resume'}}


def run_loop(case: dict[str, Any]) -> dict[str, Any]:
    from kv import contracts
    from kv.monitors import Stall
    from kv.oracles import Index, trace_lines
    from kv.refmodels import essence, expected_reason, json_eq_mod_null
    from kv.world import run_world

    contracts.install_cause_contract()
    contracts.reset()
    Stall.take_hits()
    desc = case['desc']
    w = run_world(desc)
    ix = Index(w)
    sv = ix.sv
    viol: list[dict[str, Any]] = []
    cov: dict[str, int] = {}
    for s in Stall.take_hits():
        viol.append({'mech': 'stall', 'msg': 'event loop stalled', 'witness': s})
    detects = [d for d in contracts.SINK if d['k'] == 'detect']
    cov['detects_checked'] = len(detects)
    for d in detects:
        cov['reason_' + d['reason']] = cov.get('reason_' + d['reason'], 0) + 1
        body = w.body_at(d['uid'], d['rv']) if d['uid'] and d['rv'] and str(d['rv']).isdigit() else None
        if body is None:
            continue
        hist = [v for v in w.history[d['uid']] if str(v['rv']) == str(d['rv'])]
        # server-side truth for this version (for DELETED events the body is what the event carried)
        deleting = body['metadata'].get('deletionTimestamp') is not None
        hasfin = sv.has_finalizer(body) if d['etype'] != 'DELETED' else d['has_finalizer']
        base = sv.diffbase(body)
        ess = essence(body, own_prefixes=(sv.prefix,))
        differs = base is not None and not json_eq_mod_null(base, ess)
        exp = expected_reason(d['etype'], deleting, hasfin, base is not None, differs if base is not None else True, d['initial'])
        if d['reason'] != exp:
            viol.append({'mech': 'cause-vs-server-state', 'msg': f"{d['uid']} rv={d['rv']} event={d['etype']}: classified {d['reason']} but the server-side state "
                         f"(deleting={deleting}, own finalizer={hasfin}, stored state={'yes' if base is not None else 'no'}, essential difference={differs}, "
                         f"first-sight={d['initial']}) means {exp}", 'witness': {'detect': {k: d[k] for k in d if k not in ('old', 'new')}, 'stored': base, 'essence': ess}})
    # "resume (first sight after start ...)": the first-sight flag itself is internal; at the boundary, an object whose FIRST appearance to this
    # operator process was a watch event (it was created, or re-appeared, while the process was watching) is never at its first sight after the start
    # again -- whatever re-listings follow. (An object first met in a RE-listing is the known finding of C14 and is not judged here.)
    from kv.oracles import operator_feed
    first_sight: dict[tuple[str, str], dict[str, Any]] = {}
    for inc_name in w.incs:
        for e in operator_feed(w, inc_name):
            first_sight.setdefault((inc_name, e['uid']), e)
    for d in detects:
        fs = first_sight.get((d['inc'], d['uid']))
        if fs is None:
            continue
        if fs['src'] == 'watch':
            cov['first_seen_in_watch'] = cov.get('first_seen_in_watch', 0) + 1
            if d['reason'] == 'resume' or d['cause_initial']:
                viol.append({'mech': 'resume-for-object-first-seen-in-watch', 'msg': f"{d['uid']} rv={d['rv']} event={d['etype']}: classified {d['reason']} with the first-sight flag "
                                     f"{d['cause_initial']} although this operator process first met the object in a {fs['type']} watch event at t={fs['t']} (rv={fs['rv']})", 'witness': None})
                break
    # handler invocations against the classification that preceded them
    changing_calls = [c for c in ix.calls if c['kind'] in ('create', 'update', 'delete', 'resume', 'sub', 'field') and not c.get('post_mortem')]
    cov['calls_checked'] = len(changing_calls)
    by_key: dict[tuple[str, str], list[dict[str, Any]]] = {}
    for d in detects:
        by_key.setdefault((d['inc'], d['uid']), []).append(d)
    for c in changing_calls:
        ds = [d for d in by_key.get((c['inc'], c['uid']), []) if d['g'] < c['g']]
        if not ds:
            viol.append({'mech': 'call-without-cause', 'msg': f"{c['h']} invoked on {c['uid']} without a preceding classification", 'witness': c['g']})
            continue
        d = ds[-1]
        if d['reason'] in ('gone', 'free', 'noop'):
            viol.append({'mech': 'handler-on-silent-cause', 'msg': f"{c['h']} ({c['kind']}) invoked on {c['uid']} for a {d['reason']} event (rv={d['rv']})", 'witness': None})
        if c.get('reason') != d['reason']:
            viol.append({'mech': 'reason-mismatch', 'msg': f"{c['h']} on {c['uid']}: handler was told reason={c.get('reason')} but the event was classified {d['reason']}", 'witness': None})
        kind = c['kind'] if c['kind'] != 'sub' else ix.specs[ix.specs[c['h']]['parent']]['kind']
        spec = ix.specs[c['h']] if c['kind'] != 'sub' else ix.specs[ix.specs[c['h']]['parent']]
        opts = spec.get('opts') or {}
        if kind in ('create', 'update') and c['deleting']:
            viol.append({'mech': 'change-handler-on-deleting', 'msg': f"{c['h']} ({kind}) invoked on {c['uid']} which is marked for deletion", 'witness': None})
        if kind == 'resume' and c['deleting'] and not opts.get('deleted'):
            viol.append({'mech': 'change-handler-on-deleting', 'msg': f"resume handler {c['h']} without deleted=True invoked on {c['uid']} which is marked for deletion", 'witness': None})
        if kind == 'delete' and not (c['deleting'] and sv.finalizer in c['finalizers']):
            viol.append({'mech': 'delete-handler-misplaced', 'msg': f"delete handler {c['h']} invoked on {c['uid']} (deleting={c['deleting']}, finalizers={c['finalizers']})", 'witness': None})
        if kind in ('create', 'update', 'delete') and d['reason'] != kind:
            viol.append({'mech': 'wrong-kind', 'msg': f"{kind} handler {c['h']} invoked on {c['uid']} for a {d['reason']} cause", 'witness': None})
        if kind == 'resume' and not d['cause_initial']:
            viol.append({'mech': 'wrong-kind', 'msg': f"resume handler {c['h']} invoked on {c['uid']} for a non-first-sight {d['reason']} cause", 'witness': None})
    if contracts.COUNTS.get('detect_changing_cause', 0) == 0:
        cov['runs_without_classification'] = 1
    seq = ';'.join(d['reason'] for d in detects)
    sig = hashlib.sha1(seq.encode()).hexdigest()[:16]
    reasons = {d['reason'] for d in detects}
    sample = None
    if case['name'] in ('seven', 'rnd0'):
        sample = {'name': case['name'], 'timeline': desc['timeline'], 'classified': [(d['rv'], d['etype'], d['reason']) for d in detects][:40]}
    return {'violations': viol, 'cov': cov, 'sig': sig, 'nontrivial': len(reasons) >= 3, 'sample': sample,
            'trace': trace_lines(w) if case.get('_verbose') else None}

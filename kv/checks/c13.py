"""
C13 -- peering: lower-priority operators pause, exactly the top one is active; records are renewed, withdrawn, cleaned up.
"""
from __future__ import annotations

import hashlib
import random
from typing import Any

ID = 'C13'
LEVEL = 'exploration'
STALL = True
TIMEOUT_PER_CASE = 240.0
TECHNIQUE = ('runtime monitoring: 2-3 whole operators run in one virtual-time event loop against one fake API server and share one peering object; every turn of every operator\'s '
             'pause toggle is recorded (observation probe on kopf\'s Toggle), as are all handler invocations per operator, all requests and all versions of the peering object; '
             'an offline checker compares the pause state of every operator with the peering records it had been given, checks who is active at settle points, and audits the '
             'renewal / withdrawal / clean-up of the records in the server-side history')
LEVEL_TEXT = ('Held on the explored histories: 2-3 operators with distinct and equal priorities, lifetimes from 3 s to more than a day, staggered starts, graceful exits and kills at '
              'random instants, foreign records (unknown fields, no lifetime, long dead, far future), object edits every second so that "who handles" is observable.')
LEVEL_NOTE = ('Two operators may both be active for the moment between the appearance of a higher-priority record and its delivery to the lower one (kopf has no per-object locks; '
              'documented); "exactly one active" is judged at settle points only. Lifetimes below 3 s are not explored (the keep-alive period cannot be shorter than 1 s).')
RULE = ('random operator sets x random lifetimes x random start/stop/kill schedules; non-trivial = at least one operator was paused by a peer and later resumed, or took over after a '
        'kill; distinct = hash of the per-operator toggle sequences (rounded) and exit kinds')
ASSUMPTIONS = ['operators share the virtual clock (no clock skew between peers)', 'the peering object exists (mandatory peering)']
GATES = {'queued_events_handled_while_paused': 0, 'runs': 100, 'operators': 250, 'pause_state_checks': 1500, 'pauses_by_peer': 80, 'resumes': 30, 'takeovers_after_kill': 10, 'takeovers_after_exit': 5, 'active_set_checks': 800,
         'renewals': 500, 'withdrawals': 100, 'cleanups': 10, 'paused_silence_checks': 60, 'equal_priority_runs': 10, 'foreign_records': 30}


def rnd_desc(rng: random.Random, i: int) -> dict[str, Any]:
    n = rng.choice([2, 2, 3])
    equal = rng.random() < 0.15
    prios = [10, 10, 10][:n] if equal else rng.sample([0, 5, 10, 50, 100], n)
    ops = []
    for k in range(n):
        lifetime = rng.choice([3, 4, 5, 8, 12, 20, 60, 60, 86400, 90000])
        ops.append({'name': f'op{k + 1}', 'priority': prios[k], 'lifetime': lifetime})
    handlers = [{'kind': 'create', 'id': 'c1'}, {'kind': 'update', 'id': 'u1'}, {'kind': 'event', 'id': 'ev'}]
    if rng.random() < 0.3:
        # slow handlers: a pause may begin while one is running, with further events of the object already queued behind it
        handlers[1] = {'kind': 'update', 'id': 'u1', 'script': [['slow', rng.choice([0.4, 1.5]), ['ok']] for _ in range(200)]}
    if rng.random() < 0.4:
        handlers.append({'kind': 'daemon', 'id': 'd1', 'persona': {'type': 'obedient'}})
    tl: list[list[Any]] = [[0.0, 'create', 'o0', {'spec': {'x': 0}}], [0.0, 'create', 'o1', {'spec': {'x': 0}}]]
    t = 0.5
    horizon = rng.choice([40.0, 60.0, 90.0])
    alive: list[str] = []
    for op in ops:
        tl.append([round(t, 3), 'start', op['name'], {'peering__priority': op['priority'], 'peering__lifetime': op['lifetime']}])
        alive.append(op['name'])
        t += rng.choice([0.0, 0.001, 0.3, 2.0, 7.0, 15.0])
    # exits and kills
    for k in range(rng.randint(0, 2)):
        if len(alive) <= 1:
            break
        victim = rng.choice(alive)
        alive.remove(victim)
        tl.append([round(rng.uniform(max(t, 10.0), horizon - 15.0), 3), rng.choice(['stop', 'kill', 'kill']), victim])
    # foreign records
    if rng.random() < 0.4:
        tf = round(rng.uniform(5.0, horizon - 20.0), 3)
        kind = rng.choice(['dead', 'unknown-fields', 'no-lifetime', 'low'])
        if kind == 'dead':
            tl.append([tf, 'peer_raw', 'ghost', {'priority': 1000, 'lifetime': 10, 'lastseen': '2020-01-01T00:00:00+00:00'}])
        elif kind == 'unknown-fields':
            tl.append([tf, 'peer', 'alien', 1000, 6, {'namespace': 'x', 'version': 'v9', 'nested': {'a': [1, 2]}}])
        elif kind == 'no-lifetime':
            tl.append([tf, 'peer_raw', 'lazy', {'priority': 1000, 'lastseen': '$now'}])
            tl.append([round(tf + 5.0, 3), 'unpeer', 'lazy'])
        else:
            tl.append([tf, 'peer', 'small', -5, 60])
    # the objects keep changing, so that "who handles" is observable
    te = 1.0
    k = 0
    while te < horizon:
        k += 1
        if rng.random() < 0.25:
            tl.append([round(te, 3), 'edit', rng.choice(['o0', 'o1']), {'status': {'f': k}}])      # no essential change: nothing to handle (again)
        else:
            tl.append([round(te, 3), 'edit', rng.choice(['o0', 'o1']), {'spec': {'x': k}}])
        te += rng.choice([0.7, 1.0, 1.3])
    tl.sort(key=lambda x: x[0])
    others = {'other-group': {'stranger': {'priority': 1000, 'lifetime': 86400, 'lastseen': '$now'}}} if rng.random() < 0.3 else {}
    return {'seed': rng.randrange(1 << 30), 'handlers': handlers, 'timeline': tl, 'quiet': None, 'horizon': horizon + 100.0, 'latency': 0.001, 'peering': {'name': 'default', 'others': others},
            'settings': {'queueing__idle_timeout': 1.0, 'persistence__consistency_timeout': 0.5}, 'end': 'stop', 'exit_wait': 60.0, 'ops': ops, 't_final': horizon, 'post_yields': rng.choice([0, 0, 0, 1, 2, 3, 5, 8])}


def directed() -> list[dict[str, Any]]:
    """A pause that begins while a slow handler runs and a further event of the object waits behind it: the handler finishes and records it
    while paused, the echo cannot come (streams are closed); the waiting event must not be handled on its stale view (the handler would run twice)."""
    out = []
    for slow in (0.8, 1.5):
        for t_pause in (5.7, 6.0, 6.3):
            for ct in (0.3, 0.5, 2.0):
                for py in (0, 2):
                    ops = [{'name': 'op1', 'priority': 0, 'lifetime': 60}]
                    out.append({'name': f'dir-slow{slow}-p{t_pause}-ct{ct}-py{py}', 'desc': {
                        'seed': 1, 'handlers': [{'kind': 'create', 'id': 'c1'}, {'kind': 'update', 'id': 'u1', 'script': [['slow', slow, ['ok']]] * 20}, {'kind': 'event', 'id': 'ev'}],
                        'timeline': [[0.0, 'create', 'o0', {'spec': {'x': 0}}], [0.0, 'create', 'o1', {'spec': {'x': 0}}],
                                     [0.5, 'start', 'op1', {'peering__priority': 0, 'peering__lifetime': 60}],
                                     [5.0, 'edit', 'o0', {'spec': {'x': 1}}], [5.5, 'edit', 'o0', {'status': {'f': 1}}], [t_pause, 'peer', 'boss', 100, 60], [12.0, 'unpeer', 'boss'],
                                     [20.0, 'edit', 'o0', {'spec': {'x': 2}}]],
                        'quiet': None, 'horizon': 140.0, 'latency': 0.001, 'peering': {'name': 'default'},
                        'settings': {'queueing__idle_timeout': 1.0, 'persistence__consistency_timeout': ct}, 'end': 'stop', 'exit_wait': 60.0, 'ops': ops, 't_final': 40.0, 'post_yields': py}})
    # the keep-alive of the active (top) operator fails for good on its n-th renewal (an API error that escalates after the retries): an operator that cannot
    # keep its record alive does not go on as the active one without a record -- it stops as a whole (withdrawing what it can), and the other one takes over
    for nth in (2, 3):
        for lifetime in (10, 20):
            for status in (500, 422):
                ops = [{'name': 'op1', 'priority': 100, 'lifetime': lifetime}, {'name': 'op2', 'priority': 0, 'lifetime': lifetime}]
                out.append({'name': f'dir-keepalive-fails-n{nth}-l{lifetime}-s{status}', 'desc': {
                    'seed': 1, 'handlers': [{'kind': 'create', 'id': 'c1'}, {'kind': 'update', 'id': 'u1'}, {'kind': 'event', 'id': 'ev'}],
                    'timeline': [[0.0, 'create', 'o0', {'spec': {'x': 0}}],
                                 [0.5, 'start', 'op1', {'peering__priority': 100, 'peering__lifetime': lifetime}], [1.0, 'start', 'op2', {'peering__priority': 0, 'peering__lifetime': lifetime}],
                                 [60.0, 'edit', 'o0', {'spec': {'x': 1}}], [80.0, 'edit', 'o0', {'spec': {'x': 2}}]],
                    'faults': [{'client': 'op1', 'match': {'kind': 'patch', 'plural': 'clusterkopfpeerings'}, 'nth': [nth + k for k in range(4)], 'actions': [['status', {'status': status}]]}],
                    'quiet': None, 'horizon': 140.0, 'latency': 0.001, 'peering': {'name': 'default'},
                    'settings': {'queueing__idle_timeout': 1.0, 'persistence__consistency_timeout': 0.5, 'networking__error_backoffs': [0.1, 0.1]}, 'end': 'stop', 'exit_wait': 60.0,
                    'ops': ops, 't_final': 100.0, 'post_yields': 0}})
    return out


def gen_cases(tier: str, seed: int):
    rng = random.Random(f'C13-{seed}')
    n = 160 if tier == 'quick' else 4000
    return directed() + [{'name': f'rnd{i}', 'desc': rnd_desc(rng, i)} for i in range(n)]


def run_case(case: dict[str, Any]) -> dict[str, Any]:
    from kv import vtime
    from kv.monitors import Stall
    from kv.oracles import Index, operator_feed, trace_lines
    from kv.world import run_world

    Stall.take_hits()
    desc = dict(case['desc'])
    # the run ends with a final settle point, then everybody is stopped
    desc['timeline'] = list(desc['timeline']) + [[desc['t_final'], 'edit', 'o0', {'status': {'end': 1}}]]
    w = run_world(desc)
    ix = Index(w)
    viol: list[dict[str, Any]] = []
    cov = {k: 0 for k in GATES}
    cov['runs'] = 1
    for s in Stall.take_hits():
        viol.append({'mech': 'stall', 'msg': 'event loop stalled', 'witness': s})
    ops = {o['name']: o for o in desc['ops']}
    cov['operators'] = len(ops)
    if len({o['priority'] for o in ops.values()}) < len(ops):
        cov['equal_priority_runs'] = 1
    t_final = desc['t_final']
    peer_uid = next((u for u, vs in w.history.items() if vs[0]['plural'] == 'clusterkopfpeerings'), None)
    phist = w.history.get(peer_uid, []) if peer_uid else []

    def deadline(rec: dict[str, Any], seen_at: float) -> float:
        ls = rec.get('lastseen')
        base = vtime.from_iso(ls) if isinstance(ls, str) else seen_at
        try:
            life = int(rec.get('lifetime', 60))
        except Exception:
            life = 60
        return base + life

    life: dict[str, dict[str, Any]] = {}
    for name in ops:
        inc = w.incs.get(name)
        if inc is None:
            continue
        kill_t = next((e['t'] for e in w.events if e['k'] == 'op' and e['inc'] == name and e['what'] == 'killed'), None)
        # an injected failure of this operator's own keep-alive (its requests on the peering object answered with errors until they escalate): from the first
        # such request on it is on its way out -- failing fast IS what is expected of it, and it does not count as a running operator any more
        t_fail = min((r.t for r in w.requests if r.client == name and r.plural == 'clusterkopfpeerings' and r.kind == 'patch' and r.fault and 'status' in str(r.fault)), default=None)
        life[name] = {'t_start': inc.t_start, 't_stop': inc.t_stop_requested, 't_end': inc.t_end, 'killed': kill_t, 'exc': inc.exc, 't_fail': t_fail}
        if inc.exc is not None and t_fail is None:
            viol.append({'mech': 'operator-crashed', 'msg': f"{name}: kopf.operator() raised {inc.exc!r}", 'witness': None})
        if t_fail is not None:
            cov['keepalive_failures'] = cov.get('keepalive_failures', 0) + 1
            if inc.t_end is None or inc.t_end > t_fail + 30.0:
                viol.append({'mech': 'operator-lingers-without-keepalive', 'msg': f"{name}: its keep-alive failed for good from t={t_fail} on, yet kopf.operator() went on until "
                                                                                  f"{inc.t_end if inc.t_end is not None else 'the end of the run'}", 'witness': None})

    def running(name: str, t: float) -> bool:
        L = life[name]
        if L['t_start'] is None or t < L['t_start']:
            return False
        end = min(x for x in [L['killed'], L['t_stop'], L['t_end'], L.get('t_fail'), float('inf')] if x is not None)
        return t < end

    toggles: dict[str, list[tuple[float, bool]]] = {n: [] for n in ops}
    for e in w.events:
        if e['k'] == 'note' and e.get('what') == 'toggle' and e.get('inc') in toggles and str(e.get('name')).startswith('default@'):
            toggles[e['inc']].append((e['t'], e['to']))

    def paused_at(name: str, t: float) -> bool:
        st = True      # mandatory peering: paused until the first peering event is processed
        for tt, to in toggles[name]:
            if tt <= t:
                st = to
        return st

    # (only the group's own peering object counts: records in peering objects of another name are none of its business)
    own_name = (desc.get('peering') or {}).get('name', 'default')
    feeds = {n: [e for e in operator_feed(w, n, 'clusterkopfpeerings') if (e['body'].get('metadata') or {}).get('name') == own_name] for n in ops}
    for n in ops:
        cov['pauses_by_peer'] += sum(1 for tt, to in toggles[n] if to)
        cov['resumes'] += sum(1 for tt, to in toggles[n][1:] if not to)
    cov['foreign_records'] = sum(1 for op in desc['timeline'] if op[1] in ('peer', 'peer_raw'))

    # ---- P1/P4: the pause state follows the records the operator has been given --------------------------------------------------------
    events_t = sorted({round(e['t'], 6) for f in feeds.values() for e in f} | {op[0] for op in desc['timeline'] if op[1] in ('start', 'stop', 'kill', 'peer', 'peer_raw', 'unpeer')})
    all_deadlines: list[float] = []
    for v in phist:
        for ident, rec in ((v['body'].get('status') or {}).items()):
            if isinstance(rec, dict):
                all_deadlines.append(deadline(rec, v['t']))
    probe_ts = [round(1.0 + 0.5 * k, 3) for k in range(int((t_final + 0.5) * 2))]
    sig_parts: list[str] = []
    for name, o in ops.items():
        for T in probe_ts:
            if not running(name, T) or not running(name, T - 1.0) or T < life[name]['t_start'] + 1.5:
                continue
            if any(T - 0.6 < x <= T + 1e-9 for x in events_t) or any(T - 1.2 < d <= T + 0.05 for d in all_deadlines):
                continue       # not settled: something was just delivered, or a record has just expired (wake-up, self-touch, re-evaluation are under way)
            given = [e for e in feeds[name] if e['t'] <= T]
            if not given:
                continue
            status = (given[-1]['body'].get('status') or {})
            blockers = [ident for ident, rec in status.items() if ident != name and isinstance(rec, dict) and deadline(rec, given[-1]['t']) > T
                        and int(rec.get('priority', 0)) >= o['priority']]
            cov['pause_state_checks'] += 1
            got = paused_at(name, T)
            if got != bool(blockers):
                viol.append({'mech': 'not-paused-despite-live-higher-peer' if blockers else 'paused-without-live-higher-peer',
                             'msg': f"{name} (priority {o['priority']}) at t={T}: paused={got}; the peering records it has been given (latest at t={given[-1]['t']}) "
                                    f"{'contain the live peers ' + str(blockers) + ' of higher or equal priority' if blockers else 'contain no live peer of higher or equal priority'}: "
                                    f"{ {k2: v2 for k2, v2 in status.items()} }", 'witness': {'toggles': toggles[name][-6:]}})
                break

    # ---- P5: exactly the top-priority running operator is active at settle points --------------------------------------------------------
    max_life_known = {}
    for T in probe_ts:
        alive = [n for n in ops if running(n, T) and running(n, T - 3.0) and T > life[n]['t_start'] + 3.0]
        if len(alive) < 1:
            continue
        if any(T - 1.5 < x <= T + 1e-9 for x in events_t if True) and False:
            continue
        # settled: the last start/stop/kill/foreign record is at least 3 s back and every record of a killed operator or a foreign peer has expired at least 3 s ago
        disturb = [op[0] for op in desc['timeline'] if op[1] in ('start', 'stop', 'kill', 'peer', 'peer_raw', 'unpeer')]
        if any(T - 3.0 < d <= T for d in disturb):
            continue
        last = [v for v in phist if v['t'] <= T]
        if not last:
            continue
        status = (last[-1]['body'].get('status') or {})
        stale = [ident for ident, rec in status.items() if isinstance(rec, dict) and ident not in alive and deadline(rec, last[-1]['t']) > T - 3.0]
        if stale:
            continue        # a dead/killed/foreign record is still alive (or has only just expired): the others legitimately wait for it
        if any(T - 2.0 < d <= T + 0.05 for d in all_deadlines):
            continue
        cov['active_set_checks'] += 1
        top = max(ops[n]['priority'] for n in alive)
        tops = [n for n in alive if ops[n]['priority'] == top]
        active = [n for n in alive if not paused_at(n, T)]
        want = tops if len(tops) == 1 else []       # equal top priorities: a conflict, all of them pause
        if sorted(active) != sorted(want):
            viol.append({'mech': 'wrong-active-set', 'msg': f"at t={T} the running operators are { {n: ops[n]['priority'] for n in alive} }; active (not paused): {active}; expected: {want}",
                         'witness': {'status': status, 'toggles': {n: toggles[n][-4:] for n in alive}}})
            break
    for n in ops:
        L = life[n]
        for other in ops:
            if other == n or life[other]['t_start'] is None:
                continue
            end_kind = 'kill' if L['killed'] is not None else 'exit' if L['t_end'] is not None and L['t_end'] < t_final else None
            if end_kind and any((not to) and tt > (L['killed'] or L['t_end']) for tt, to in toggles[other]):
                cov['takeovers_after_kill' if end_kind == 'kill' else 'takeovers_after_exit'] += 1

    # ---- P2: a paused operator is silent: no change handlers started, no object streams open ------------------------------------------------
    for name in ops:
        tg = toggles[name]
        for k, (tp, to) in enumerate(tg):
            if not to:
                continue
            tr = next((tt for tt, x in tg[k + 1:] if not x), min(x for x in [life[name]['killed'], life[name]['t_stop'], life[name]['t_end'], t_final + 100] if x is not None))
            if tr - tp < 1.0:
                continue
            cov['paused_silence_checks'] += 1
            late = [c for c in ix.calls if c['inc'] == name and c['kind'] in ('create', 'update', 'daemon', 'timer') and tp + 0.5 < c['t'] < tr - 1e-6]
            # '... beyond events already queued': a change handler may still start for a version that had been delivered before the pause began
            # (it was waiting in the object's queue behind a slow handler, or for the consistency of that handler's write)
            given_before = {(u, str(rv)) for s in w.sim.kube.streams if s.client.name == name and s.plural == 'kopfexamples'
                            for (t, typ, u, rv) in s.delivered if t <= tp + 1e-9}
            queued = [c for c in late if c['kind'] in ('create', 'update') and (c['uid'], str(c.get('rv'))) in given_before]
            cov['queued_events_handled_while_paused'] += len(queued)
            late = [c for c in late if c not in queued]
            if late:
                viol.append({'mech': 'handled-while-paused', 'msg': f"{name} is paused during [{tp}, {tr}], yet it started {late[0]['h']} ({late[0]['kind']}) for {late[0]['uid']} at t={late[0]['t']}", 'witness': None})
                break
            open_streams = [s for s in w.sim.kube.streams if s.client.name == name and s.plural == 'kopfexamples' and s.opened < tr - 1e-6 and (s.closed_at is None or s.closed_at > tp + 0.5) and s.opened <= tr
                            and not (s.opened >= tr - 1e-6)]
            open_streams = [s for s in open_streams if max(s.opened, tp + 0.5) < min(s.closed_at if s.closed_at is not None else float('inf'), tr)]
            if open_streams:
                s0 = open_streams[0]
                viol.append({'mech': 'watching-while-paused', 'msg': f"{name} is paused during [{tp}, {tr}], yet its watch stream for kopfexamples opened at t={s0.opened} stays open till {s0.closed_at}", 'witness': None})
                break
            daemons_alive = [c for c in ix.calls if c['inc'] == name and c['kind'] == 'daemon' and c['t'] <= tp and (c['seq'] not in ix.rets or ix.rets[c['seq']]['t'] > tp + 0.5)]
            if daemons_alive:
                viol.append({'mech': 'daemon-runs-while-paused', 'msg': f"{name} paused at t={tp}: its daemon {daemons_alive[0]['h']} for {daemons_alive[0]['uid']} is still running 0.5 s later", 'witness': None})
                break

    # ---- P3: no handler executed twice by one operator for one change because of a pause -----------------------------------------------------
    for name in ops:
        done: dict[tuple[str, str, Any], list[float]] = {}
        for c in ix.calls:
            if c['inc'] == name and c['kind'] in ('create', 'update') and c['seq'] in ix.rets and ix.rets[c['seq']]['outcome'] == 'ok':
                done.setdefault((c['h'], c['uid'], (c.get('spec') or {}).get('x')), []).append(c['t'])
        for key, ts in done.items():
            if len(ts) > 1 and any(to for tt, to in toggles[name] if ts[0] <= tt <= ts[-1]):
                viol.append({'mech': 'handler-repeated-across-pause', 'msg': f"{name}: {key[0]} succeeded {len(ts)} times for {key[1]} with spec.x={key[2]} (at t={ts}), with a pause in between", 'witness': None})
                break

    # ---- P6/P7/P8: renewal before expiry, withdrawal on graceful exit, clean-up of expired records ----------------------------------------------
    for name, o in ops.items():
        L = life[name]
        mine = [(v['t'], (v['body'].get('status') or {}).get(name)) for v in phist]
        touches = [(t, rec) for t, rec in mine if isinstance(rec, dict)]
        # distinct consecutive records of this operator
        recs: list[tuple[float, dict[str, Any]]] = []
        for t, rec in touches:
            if not recs or recs[-1][1] != rec:
                recs.append((t, rec))
        end = min(x for x in [L['killed'], L['t_stop'], L['t_end'], t_final + 100.0] if x is not None)
        for (t1, r1), (t2, r2) in zip(recs, recs[1:]):
            if t2 > end:
                break
            cov['renewals'] += 1
            if t2 > deadline(r1, t1) + 1e-6:
                viol.append({'mech': 'record-expired-before-renewal', 'msg': f"{name} (lifetime {o['lifetime']}): its record written at t={t1} expired at t={deadline(r1, t1)}, the renewal came only at t={t2}",
                             'witness': {'records': recs[:6]}})
                break
        if recs and L['killed'] is None:
            lt, lr = [x for x in recs if x[0] <= end][-1] if [x for x in recs if x[0] <= end] else recs[0]
            if deadline(lr, lt) < end - 1e-6 and end > lt:
                viol.append({'mech': 'record-expired-before-renewal', 'msg': f"{name} (lifetime {o['lifetime']}): its last record (t={lt}) expired at t={deadline(lr, lt)} while it kept running till t={end}", 'witness': None})
        if recs and int(recs[0][1].get('lifetime', -1)) != o['lifetime']:
            viol.append({'mech': 'record-misstates-lifetime', 'msg': f"{name} is configured with lifetime={o['lifetime']}, its record says {recs[0][1].get('lifetime')}", 'witness': {'record': recs[0][1]}})
        if L['t_end'] is not None and L['killed'] is None and L['exc'] is None:
            cov['withdrawals'] += 1
            after = [v for v in phist if v['t'] >= L['t_end'] - 1e-6]
            final_status = (phist[-1]['body'].get('status') or {}) if phist else {}
            still = name in ((after[0]['body'].get('status') or {}) if after else final_status) and name in final_status
            last_at_end = [v for v in phist if v['t'] <= L['t_end'] + 1e-6]
            if last_at_end and name in (last_at_end[-1]['body'].get('status') or {}):
                viol.append({'mech': 'record-not-withdrawn-on-exit', 'msg': f"{name} exited gracefully at t={L['t_end']}, its record is still in the peering object: {(last_at_end[-1]['body'].get('status') or {}).get(name)}", 'witness': None})
        if L['killed'] is not None and recs:
            lt, lr = [x for x in recs if x[0] <= L['killed']][-1] if [x for x in recs if x[0] <= L['killed']] else recs[-1]
            dl = deadline(lr, lt)
            # dead records are cleaned when a running operator processes its next peering event after the expiry (its own keep-alive at the latest)
            nxt = next((e['t'] for n in ops if n != name for e in feeds[n] if e['t'] > dl + 0.1 and running(n, e['t'] + 1.0)), None)
            if nxt is not None and nxt + 1.0 < t_final:
                cov['cleanups'] += 1
                at = [v for v in phist if v['t'] <= nxt + 1.0]
                if at and name in (at[-1]['body'].get('status') or {}):
                    viol.append({'mech': 'expired-record-not-cleaned', 'msg': f"{name} was killed at t={L['killed']}; its record expired at t={dl}; a running operator was given a peering event at t={nxt}, "
                                                                              f"yet 1 s later the dead record is still in the peering object", 'witness': None})
        sig_parts.append(repr((name, o['priority'], [(round(tt, 1), to) for tt, to in toggles[name]], 'killed' if L['killed'] else 'exit')))

    nontrivial = any(any(to for _, to in toggles[n][1:]) for n in ops)
    sample = None
    if case['name'] == 'rnd0':
        sample = {'operators': desc['ops'], 'toggles': {n: toggles[n][:8] for n in ops}, 'peering_versions': len(phist)}
    return {'violations': viol, 'cov': cov, 'sig': hashlib.sha1('|'.join(sig_parts).encode()).hexdigest()[:16], 'nontrivial': nontrivial, 'sample': sample,
            'trace': trace_lines(w) if case.get('_verbose') else None}

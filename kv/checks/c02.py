"""
C02 -- recorded handler progress governs invocation (no re-run of finished handlers).

Whole operator in the closed loop; outcome scripts x lifecycles x storages x foreign events x restarts; for the
directed corpus every PATCH request index x {kill before, kill after the write is applied} is enumerated.
"""
from __future__ import annotations

import copy
import hashlib
import random
from typing import Any

ID = 'C02'
LEVEL = 'fault_enumeration'
STALL = True
TIMEOUT_PER_CASE = 120.0
TECHNIQUE = ('runtime monitoring: offline trace oracle over handler call/return records, the operator\'s PATCH requests and the fake API '
             'server\'s version history (view-vs-record, acknowledged-write barrier, retry numbering, cycle closure), with crash-point '
             'enumeration at every write request of the directed scenarios')
LEVEL_TEXT = ('Held on the executions explored. For each directed scenario the operator process is killed at EVERY write request, once before and '
              'once after the server applied it, and restarted on the left-over state; random scenarios add lifecycles, storages, sub-handlers, '
              'foreign events, graceful restarts and random kill points. The oracle reads progress records from the server-side history, not from '
              'kopf. Crash points are enumerated exhaustively only for the directed corpus; the rest is sampled.'
              ' A quarter of the random scenarios slip foreign status writes before the k-th JSON/merge patch (422 conflicts on finalizer edits); a fifth run (some) handlers as synchronous functions in real threads.')
LEVEL_NOTE = ('Trusted: kv/fakekube.py (merge/JSON-patch semantics, watch ordering), SIGKILL emulated by a dead client + task cancellation, '
              'virtual clocks. Echo lag is kept below the consistency timeout (beyond it the statement itself excludes). Handlers with retries=/timeout= '
              'limits are left to C11.')
RULE = ("cases = closed-loop scenarios: 1-4 handlers per cause (+sub-handlers) with outcome scripts over {ok,temporary(d),permanent,arbitrary}, "
        "lifecycle, storage configuration, status subresource on/off, foreign status/spec edits mid-cycle, graceful restarts and kills, optional daemon whose exit takes several re-checks (deletions spanning passes), optional watch-stream breaks (resume or re-listing) mid-cycle; directed "
        "scenarios are re-run once per (write request index, before/after) kill point. non-trivial = multi-step cycle (>=3 operator PATCHes on one "
        "object) or a restart/kill mid-cycle; distinct = hash of the sequence of (handler id, outcome, incarnation ordinal) and kill position")
ASSUMPTIONS = [
    "fake API server is a faithful model of merge-patch/JSON-patch/watch semantics used here",
    "watch echo lag < consistency_timeout in all scenarios of this check",
    "a kill is emulated by making the client dead (no later request has an effect) and cancelling the operator task",
]
GATES = {'multi_step_cycles': 1, 'retries_seen': 1, 'sub_retries_seen': 1, 'restart_mid_cycle': 1,
         'kill_before_applied': 1, 'kill_after_applied': 1, 'calls_checked': 100, 'deletions_held_by_daemons': 3}

SCRIPT_ATOMS = [['ok'], ['ok'], ['ok', {'r': 1}], ['temp', 0.5], ['temp', 2], ['perm'], ['arb'], ['slow', 0.3, ['ok']], ['slow', 1.5, ['temp', 1]]]


def _rand_script(rng: random.Random, maxlen: int = 3) -> list[Any]:
    return [copy.deepcopy(rng.choice(SCRIPT_ATOMS)) for _ in range(rng.randint(0, maxlen))]


def directed() -> list[dict[str, Any]]:
    base = {'settings': {'queueing__idle_timeout': 1.0, 'persistence__consistency_timeout': 2.0, 'execution__default_backoff': 1.5},
            'quiet': 20.0, 'horizon': 400.0}
    out = []
    # D1: two create handlers (one retried), an update cycle with a permanent failure, a delete cycle
    out.append(dict(base, name='D1', handlers=[
        {'kind': 'create', 'id': 'c1', 'script': [['temp', 1], ['ok', {'a': 1}]]},
        {'kind': 'create', 'id': 'c2', 'script': [['arb'], ['ok']]},
        {'kind': 'update', 'id': 'u1', 'script': [['perm']]},
        {'kind': 'update', 'id': 'u2', 'script': [['temp', 1], ['ok']]},
        {'kind': 'delete', 'id': 'd1', 'script': [['temp', 1], ['ok']]},
    ], timeline=[[0, 'start', 'op1'], [1, 'create', 'a', {'spec': {'x': 1}}], [15, 'edit', 'a', {'spec': {'x': 2}}],
                 [16, 'edit', 'a', {'status': {'foreign': 1}}], [30, 'delete', 'a']]))
    # D2: sub-handlers with a retrying child, all_at_once, status storage with a status subresource
    out.append(dict(base, name='D2', lifecycle='all_at_once', storage='status', resources='kex_s', handlers=[
        {'kind': 'create', 'id': 'c1', 'subs': [{'id': 's1', 'script': [['ok']]}, {'id': 's2', 'script': [['temp', 1], ['temp', 1], ['ok']]}]},
        {'kind': 'create', 'id': 'c2', 'script': [['temp', 0.5], ['ok']]},
        {'kind': 'update', 'id': 'u1', 'script': [['arb'], ['ok']]},
    ], timeline=[[0, 'start', 'op1'], [1, 'create', 'a', {'spec': {'x': 1}}], [2.2, 'edit', 'a', {'status': {'foreign': 2}}],
                 [20, 'edit', 'a', {'spec': {'x': 5}}]]))
    # D3: one_by_one with custom-prefixed annotations and a pre-existing object, edit mid-cycle
    out.append(dict(base, name='D3', lifecycle='one_by_one', storage='annotations', prefix='my-op.example.com', handlers=[
        {'kind': 'create', 'id': 'c1', 'script': [['slow', 1.0, ['ok']]]},
        {'kind': 'create', 'id': 'c2', 'script': [['temp', 2], ['ok']]},
        {'kind': 'create', 'id': 'c3', 'script': [['perm']]},
        {'kind': 'update', 'id': 'u1', 'script': [['temp', 1], ['ok']]},
        {'kind': 'delete', 'id': 'd1'},
    ], timeline=[[0, 'create', 'a', {'spec': {'x': 1}}], [0.5, 'start', 'op1'], [1.2, 'edit', 'a', {'spec': {'x': 2}}],
                 [25, 'edit', 'a', {'metadata': {'labels': {'l': 'v'}}}], [40, 'delete', 'a']]))
    # D4: a handled object, a restart, resume handlers of which one retries, and an edit while the resume cycle is open
    out.append(dict(base, name='D4', handlers=[
        {'kind': 'create', 'id': 'c1'},
        {'kind': 'resume', 'id': 'r1', 'script': [['ok'], ['ok']]},
        {'kind': 'resume', 'id': 'r2', 'script': [['temp', 3], ['ok'], ['temp', 3], ['ok']]},
        {'kind': 'update', 'id': 'u1', 'script': [['temp', 1], ['ok']]},
    ], timeline=[[0, 'start', 'op1'], [1, 'create', 'a', {'spec': {'x': 1}}], [5, 'stop_wait', 'op1'], [6, 'start', 'op2'],
                 [7, 'edit', 'a', {'spec': {'x': 2}}], [30, 'stop_wait', 'op2'], [31, 'start', 'op3'], [31.5, 'edit', 'a', {'status': {'f': 1}}],
                 [32.5, 'edit', 'a', {'spec': {'x': 3}}]]))
    # D5: deletion handlers (one with a result) next to daemons that take several re-checks to exit: the deletion is ONE cycle
    out.append(dict(base, name='D5', storage='status', handlers=[
        {'kind': 'create', 'id': 'c1'},
        {'kind': 'delete', 'id': 'd1', 'script': [['ok', {'r': 1}], ['ok', {'r': 1}], ['ok', {'r': 1}]]},
        {'kind': 'delete', 'id': 'd2', 'script': [['temp', 1], ['ok'], ['ok']]},
        {'kind': 'daemon', 'id': 'dm', 'persona': {'type': 'linger', 'linger': 4.0}, 'opts': {}},
        {'kind': 'timer', 'id': 'tm', 'opts': {'interval': 5.0}},
    ], settings=dict(base['settings'], background__cancellation_polling=1.0),
        timeline=[[0, 'start', 'op1'], [1, 'create', 'a', {'spec': {'x': 1}}], [6, 'delete', 'a']]))
    # D6: a write conflict at the end of a deletion: a foreign status edit lands while the (slow) deletion handler runs, so the finalizer removal fails its
    # resourceVersion test (422) AFTER the progress was purged by the merge-patch before it; the removal is carried over, the handler must not run again
    for dur in (0.3, 1.0):
        for n_del in (1, 2):
            out.append(dict(base, name=f'D6-conflict-d{dur}-n{n_del}', handlers=[
                {'kind': 'create', 'id': 'c1'},
            ] + [{'kind': 'delete', 'id': f'd{k + 1}', 'script': [['slow', dur, ['ok']]]} for k in range(n_del)],
                timeline=[[0, 'start', 'op1'], [1, 'create', 'a', {'spec': {'x': 1}}], [6, 'delete', 'a'], [round(6 + dur / 2, 3), 'edit', 'a', {'status': {'foreign': 1}}]]))
    # D7: the open resume cycle is superseded by an update that leaves a record of the old purpose behind (a resume handler that is filtered out for the
    # new state, or the finished update handler when the edit is reverted): the handlers that go on keep their records -- a finished one stays finished
    for gap in (0.4, 1.5):
        for variant in ('revert', 'unlabel', 'delete'):
            hs = [{'kind': 'create', 'id': 'c1'}, {'kind': 'update', 'id': 'u1'}, {'kind': 'resume', 'id': 'r1', 'opts': {'deleted': True}},
                  {'kind': 'resume', 'id': 'r2', 'script': [['temp', 6.0], ['ok']]},
                  {'kind': 'resume', 'id': 'r3', 'script': [['temp', 6.0], ['ok']], 'opts': {'labels': {'l': 'a'}}}, {'kind': 'delete', 'id': 'd1'}]
            tl = [[0, 'start', 'op1'], [1, 'create', 'a', {'spec': {'x': 0}, 'metadata': {'labels': {'l': 'a'}}}], [3, 'stop_wait', 'op1'], [4, 'start', 'op2']]
            if variant == 'revert':
                tl += [[5.0, 'edit', 'a', {'spec': {'x': 1}}], [round(5.0 + gap, 3), 'edit', 'a', {'spec': {'x': 0}}]]
            elif variant == 'unlabel':
                tl += [[round(5.0 + gap, 3), 'edit', 'a', {'metadata': {'labels': {'l': 'b'}}}]]
            else:
                tl += [[round(5.0 + gap, 3), 'delete', 'a']]
            out.append(dict(base, name=f'D7-supersede-{variant}-{gap}', handlers=hs, timeline=tl))
    return out


def _sync(desc: dict[str, Any], seed: int, i: int) -> dict[str, Any]:
    from kv.world import syncify
    return syncify(desc, random.Random(f'C02-sync-{seed}-{i}'))       # a share of the scenarios runs (some of) its handlers as threads


def gen_cases(tier: str, seed: int):
    rng = random.Random(f'C02-{seed}')
    cases: list[dict[str, Any]] = []
    for d in directed():
        cases.append({'name': d['name'] + '-base', 'desc': d, 'enumerate_kills': False})
        cases.append({'name': d['name'] + '-kills', 'desc': d, 'enumerate_kills': True, 'stride': 1 if tier == 'thorough' else 1})
        # graceful restarts in the middle of cycles
        for t_stop in (1.3, 2.0, 3.5, 16.5, 31.0):
            dd = copy.deepcopy(d)
            dd['timeline'] = sorted(dd['timeline'] + [[t_stop, 'stop_wait', 'op1'], [t_stop + 0.5, 'start', 'op2']], key=lambda x: x[0])
            cases.append({'name': f"{d['name']}-restart{t_stop}", 'desc': dd, 'enumerate_kills': False})
    n = 1200 if tier == "quick" else 40000
    for i in range(n):
        cases.append({'name': f'rnd{i}', 'desc': _sync(random_desc(rng, i), seed, i), 'enumerate_kills': False})
    return cases


def random_desc(rng: random.Random, i: int) -> dict[str, Any]:
    handlers: list[dict[str, Any]] = []
    for kind, pfx, lo, hi in (('create', 'c', 1, 4), ('update', 'u', 0, 3), ('delete', 'd', 0, 2), ('resume', 'r', 0, 2)):
        for j in range(rng.randint(lo, hi)):
            h: dict[str, Any] = {'kind': kind, 'id': f'{pfx}{j + 1}', 'script': _rand_script(rng)}
            if rng.random() < 0.25:      # (sub-handlers under every kind, incl. deletion and resuming)
                h['subs'] = [{'id': f's{k + 1}', 'script': _rand_script(rng, 2)} for k in range(rng.randint(1, 2))]
            if rng.random() < 0.2:
                h['opts'] = {'errors': rng.choice(['permanent', 'ignored', 'temporary']), 'backoff': rng.choice([0.5, 2])}
            handlers.append(h)
    if rng.random() < 0.2:
        # a daemon that needs several re-checks to exit: a deletion (or a mismatch) spans more than one processing pass
        persona = rng.choice([{'type': 'linger', 'linger': rng.choice([0.5, 3.0])}, {'type': 'selfexit', 'after': rng.choice([2.0, 8.0])}, {'type': 'obedient'}])
        handlers.append({'kind': 'daemon', 'id': 'dm', 'persona': persona, 'opts': rng.choice([{}, {'cancellation_backoff': 1.0}])})
    storage, prefix, resources = rng.choice([('default', None, 'kex'), ('default', None, 'kex_s'), ('annotations', 'my-op.example.com', 'kex'),
                                             ('status', None, 'kex'), ('status', None, 'kex_s'), ('smart', 'op2.example.org', 'kex_s')])
    nobj = rng.randint(1, 2)
    tl: list[list[Any]] = []
    t0 = rng.choice([0.0, 0.0, 2.0])  # operator start
    tl.append([t0, 'start', 'op1'])
    t = rng.choice([0.0, 1.0, 3.0])
    names = [f'o{k}' for k in range(nobj)]
    for nme in names:
        tl.append([round(t + rng.uniform(0, 1), 3), 'create', nme, {'spec': {'x': 0}}])
    t_end = t + 3
    for k in range(rng.randint(0, 5)):
        t_end = round(t_end + rng.choice([0.1, 0.7, 1.0, 2.5, 6.0, 12.0]), 3)
        nme = rng.choice(names)
        what = rng.random()
        if what < 0.45:
            tl.append([t_end, 'edit', nme, {'spec': {'x': k + 1}}])
        elif what < 0.7:
            tl.append([t_end, 'edit', nme, {'status': {'foreign': k}}])
        elif what < 0.85:
            tl.append([t_end, 'edit', nme, {'metadata': {'labels': {'l': f'v{k}'}}}])
        else:
            tl.append([t_end, 'delete', nme])
    nrestarts = rng.choice([0, 0, 1, 2])
    inc = 1
    ts = t0
    for _ in range(nrestarts):
        ts = round(max(ts + 0.2, rng.uniform(t + 0.5, t_end + 3)), 3)
        tl.append([ts, 'stop_wait', f'op{inc}'])
        inc += 1
        ts = round(ts + rng.choice([0.1, 1.0, 5.0]), 3)
        tl.append([ts, 'start', f'op{inc}'])
    tl.sort(key=lambda x: x[0])   # stable: operator stop/start pairs were generated in increasing time
    desc: dict[str, Any] = {
        'seed': rng.randrange(1 << 30), 'handlers': handlers, 'storage': storage, 'prefix': prefix, 'resources': resources,
        'lifecycle': rng.choice([None, None, 'one_by_one', 'all_at_once', 'shuffled', 'randomized', 'asap']),
        'settings': {'queueing__idle_timeout': rng.choice([0.5, 1.0, 5.0]), 'persistence__consistency_timeout': rng.choice([1.0, 2.0, 5.0]),
                     'execution__default_backoff': 1.5, 'background__cancellation_polling': rng.choice([1.0, 2.0])},   # (60 s by default: beyond 'quiet')
        'kube': {'del_keep_finalizer': rng.random() < 0.5, 'del_bump_patch_rv': rng.random() < 0.5},
        'timeline': tl, 'quiet': 20.0, 'horizon': 600.0,
        'lag': {'values': rng.choice([[0.0], [0.0, 0.05], [0.0, 0.3, 0.6]])},
        'post_yields': rng.choice([0, 0, 1, 3]),
    }
    if rng.random() < 0.15:
        # the watch stream breaks in the middle of cycles: it is resumed from the last seen version, or re-listed after a 410
        extra: list[list[Any]] = []
        for _ in range(rng.randint(1, 3)):
            tb = round(rng.uniform(t, t_end + 3.0), 3)
            kind = rng.choice(['eof', 'conn', '410', 'timeout'])
            if kind == '410' or rng.random() < 0.3:
                extra.append([tb, 'compact'])
            extra.append([round(tb + 0.001, 3), 'break', kind])
        desc['timeline'] = sorted(desc['timeline'] + extra, key=lambda x: x[0])
        desc['settings']['watching__reconnect_backoff'] = rng.choice([0.1, 0.5])
    if nrestarts == 0 and rng.random() < 0.25:
        # optimistic-concurrency conflicts: a foreign NON-essential write (status) slipped right before the k-th JSON-patch (finalizer edits; it answers 422
        # and is carried over to the next pass) or merge-patch of the operator. No crash, no lost response: every handler still succeeds at most once per cycle.
        rs = random.Random(rng.random())
        desc['faults'] = [{'client': 'op1', 'match': {'kind': 'patch', 'plural': 'kopfexamples', 'ctype': ctype}, 'nth': rs.randint(1, hi),
                           'actions': [['slip', {'op': ['edit', rs.choice(names), {'status': {'slipped': k}}]}]]}
                          for k, (ctype, hi) in enumerate(rs.sample([('application/json-patch+json', 4), ('application/json-patch+json', 4), ('application/merge-patch+json', 10)], rs.randint(1, 3)))]
        desc['conflicts'] = True
    elif nrestarts == 0 and rng.random() < 0.4:
        desc['faults'] = [{'client': 'op1', 'match': {'kind': 'patch', 'plural': 'kopfexamples'}, 'nth': rng.randint(1, 12),
                           'actions': [[rng.choice(['kill_before', 'kill_after']), {}]]}]
        desc['restart_after_kill'] = {'delay': rng.choice([0.2, 2.0, 10.0]), 'max': 2}
    return desc


def run_case(case: dict[str, Any]) -> dict[str, Any]:
    from kv.monitors import Stall
    from kv.oracles import Index, oracle_progress, trace_lines
    from kv.world import run_world

    Stall.take_hits()
    viol: list[dict[str, Any]] = []
    cov: dict[str, int] = {}
    sigs: list[str] = []
    traces: list[str] = []

    def one(desc: dict[str, Any], tag: str) -> Any:
        w = run_world(desc)
        ix = Index(w)
        vs = oracle_progress(w, ix)
        for s in Stall.take_hits():
            vs.append({'mech': 'stall', 'msg': 'event loop stalled', 'witness': s})
        for v in vs:
            v['msg'] = f'[{tag}] ' + v['msg']
        viol.extend(vs)
        # coverage
        per_uid_patches: dict[str, int] = {}
        for r in ix.writes:
            if r.client.startswith('op'):
                per_uid_patches[r.landed_uid] = per_uid_patches.get(r.landed_uid, 0) + 1
        multi = sum(1 for n in per_uid_patches.values() if n >= 3)
        cov['multi_step_cycles'] = cov.get('multi_step_cycles', 0) + multi
        changing = [c for c in ix.calls if c['kind'] in ('create', 'update', 'delete', 'sub')]
        cov['calls_checked'] = cov.get('calls_checked', 0) + len(changing)
        cov['retries_seen'] = cov.get('retries_seen', 0) + sum(1 for c in changing if (c.get('retry') or 0) > 0)
        cov['sub_retries_seen'] = cov.get('sub_retries_seen', 0) + sum(1 for c in changing if c['kind'] == 'sub' and (c.get('retry') or 0) > 0)
        incs = sorted({c['inc'] for c in changing})
        # restart mid-cycle: a later incarnation continued with retry>0 or skipped a finished sibling
        mid = 0
        for uid in ix.uids:
            seen_inc: list[str] = []
            for c in changing:
                if c['uid'] == uid and (not seen_inc or seen_inc[-1] != c['inc']):
                    seen_inc.append(c['inc'])
            if len(seen_inc) > 1:
                first_of_later = [c for c in changing if c['uid'] == uid and c['inc'] == seen_inc[1]][:1]
                if first_of_later and ix.sv.any_progress_keys({'metadata': {'annotations': first_of_later[0].get('annotations') or {}},
                                                               'status': first_of_later[0].get('status') or {}}):
                    mid += 1
        cov['restart_mid_cycle'] = cov.get('restart_mid_cycle', 0) + mid
        for r in w.requests:
            if r.fault and 'kill_before' in r.fault:
                cov['kill_before_applied'] = cov.get('kill_before_applied', 0) + 1
            if r.fault and 'kill_after' in r.fault and r.status == 200:
                cov['kill_after_applied'] = cov.get('kill_after_applied', 0) + 1
        # deletions that went on over several passes because a daemon was still exiting, with deletion handlers involved
        for uid in ix.uids:
            marks = [v['g'] for v in w.history[uid] if v['body']['metadata'].get('deletionTimestamp')]
            if marks and any(c['uid'] == uid and c['kind'] == 'delete' for c in ix.calls):
                ends = [r for r in ix.rets.values() if r['uid'] == uid and r['kind'] == 'daemon' and r['g'] > marks[0]]
                dones = [r['g'] for r in ix.rets.values() if r['uid'] == uid and r['kind'] == 'delete' and ix.is_final(r)]
                if ends and dones and max(dones) < max(r['g'] for r in ends):
                    cov['deletions_held_by_daemons'] = cov.get('deletions_held_by_daemons', 0) + 1
        if w.quiesced is False:
            viol.append({'mech': 'no-quiescence', 'msg': f'[{tag}] handling did not terminate before the horizon', 'witness': None})
        order = ';'.join(f"{c['h']}:{ix.rets.get(c['seq'], {}).get('outcome')}:{incs.index(c['inc'])}" for c in changing)
        sigs.append(hashlib.sha1((tag + order).encode()).hexdigest()[:16])
        if case.get('_verbose'):
            traces.extend([f'==== {tag}'] + trace_lines(w))
        return w, ix, (multi > 0 or len(incs) > 1)

    desc = case['desc']
    w, ix, nontrivial = one(desc, 'base')
    if case.get('enumerate_kills'):
        n_patches = sum(1 for r in w.requests if r.client == 'op1' and r.kind == 'patch' and r.plural == 'kopfexamples')
        cov['kill_points_enumerated'] = 0
        for k in range(1, n_patches + 1, case.get('stride', 1)):
            for mode in ('kill_before', 'kill_after'):
                dd = copy.deepcopy(desc)
                dd['faults'] = [{'client': 'op1', 'match': {'kind': 'patch', 'plural': 'kopfexamples'}, 'nth': k, 'actions': [[mode, {}]]}]
                dd['restart_after_kill'] = {'delay': 1.0, 'max': 1}
                one(dd, f'{mode}@{k}')
                cov['kill_points_enumerated'] += 1
        nontrivial = True
    sample = None
    if case['name'] in ('D1-base', 'rnd0'):
        sample = {'name': case['name'], 'handlers': desc['handlers'], 'timeline': desc['timeline'], 'trace_head': trace_lines(w)[:25]}
    return {'violations': viol, 'cov': cov, 'sig': hashlib.sha1(''.join(sigs).encode()).hexdigest()[:16], 'nontrivial': nontrivial,
            'sample': sample, 'trace': traces}

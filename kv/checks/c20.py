"""
C20 -- operator life cycle: startup first, fail-fast, cleanup last, bounded exit.
"""
from __future__ import annotations

import hashlib
import random
from typing import Any

ID = 'C20'
LEVEL = 'fault_enumeration'
STALL = True
TIMEOUT_PER_CASE = 240.0
TECHNIQUE = ('runtime monitoring with fault injection: the whole kopf.operator() call runs against the fake API server on a virtual clock; a global sequence number orders startup/'
             'cleanup handler calls, every API request, daemon exits, watch-stream closings and the return of the call; one trigger per run (stop flag, task cancellation, fatal '
             'watch event, unrecoverable worker error, failing root/peering task, failing startup) is injected at a random instant including during startup; an offline checker '
             'verifies the order and the bounds')
LEVEL_TEXT = ('Held on the explored runs: 0-3 startup handlers with outcome scripts (ok, slow, temporary-then-ok, permanent, arbitrary with retries), 0-2 cleanup handlers (ok, slow, '
              'failing), 0-2 daemons (obeying / needing cancellation / swallowing it), slow change handlers in flight, peering on/off; triggers: stop flag, cancellation, ERROR watch '
              'event, BaseException from a handler (unrecoverable worker error), discovery failing for good, peering keep-alive failing for good, startup failure; trigger instants '
              'from t=0 (during startup) to steady state.')
LEVEL_NOTE = ('The exit bound is computed per run from the configured grace periods (worker exit timeout 2 s, hung-task grace 5 s, daemon cancellation backoff+timeout, cleanup durations) '
              'plus 3 s. On task cancellation kopf documents "no graceful period at all": only the bounded return and the absence of later activity are judged then.')
RULE = ('random configurations x trigger kinds x trigger instants; non-trivial = the trigger hit a running (started) operator with at least one daemon or in-flight handler, or a failing '
        'startup; distinct = hash of (configuration, trigger, rounded order of the life-cycle events)')
ASSUMPTIONS = ['ultimate_exiting_timeout is off in simulations (it sends a real SIGKILL)', 'daemon personas are finite']
SANITIZE_LOOP_ERRORS = True      # an exception inside an asyncio callback during the simulation is a violation here (runner.run_case_sanitized)
GATES = {'runs': 200, 'startup_failures': 20, 'stops_during_startup': 15, 'stop_flag_runs': 20, 'cancel_runs': 20, 'fatal_watch_runs': 20, 'worker_failure_runs': 15, 'root_failure_runs': 15,
         'peering_failure_runs': 8, 'ns_removal_runs': 15, 'api_down_runs': 15, 'cleanup_order_checks': 100, 'daemons_stopped': 60, 'withdrawals': 12, 'first_request_checks': 150, 'bounded_exits': 200}

TRIGGERS = ['stop', 'stop_api_down', 'stop_in_ns_removal', 'cancel', 'watch_error', 'worker_fatal', 'discovery_down', 'keepalive_down', 'startup_fail', 'stop_in_startup']


def rnd_desc(rng: random.Random, i: int) -> dict[str, Any]:
    trig = TRIGGERS[i % len(TRIGGERS)]
    peering = trig == 'keepalive_down' or rng.random() < 0.3
    handlers: list[dict[str, Any]] = []
    n_start = rng.randint(0, 3) if trig not in ('startup_fail', 'stop_in_startup') else rng.randint(1, 3)
    startup_dur = 0.0
    for k in range(n_start):
        script = rng.choice([[['ok']], [['slow', 1.5]], [['temp', 1.0], ['ok']], [['arb'], ['ok']], [['slow', 0.5, ['temp', 0.5]], ['slow', 0.5]]])
        handlers.append({'kind': 'startup', 'id': f'st{k}', 'script': script, 'opts': {'backoff': 0.7}})
    if trig == 'startup_fail':
        bad = rng.randrange(n_start)
        handlers[bad]['script'] = rng.choice([[['perm']], [['slow', 0.8, ['perm']]], [['arb'], ['arb'], ['arb']], [['temp', 0.5], ['perm']]])
        handlers[bad]['opts'] = {'backoff': 0.4, 'retries': 3}
        if n_start > 1 and rng.random() < 0.6:
            other = (bad + 1) % n_start
            handlers[other]['script'] = [['temp', 2.0], ['temp', 2.0], ['ok']]       # still retrying when the other one has failed for good
    if trig == 'stop_in_startup':
        handlers[0]['script'] = [['slow', 4.0]]
    for k in range(rng.randint(0, 2)):
        handlers.append({'kind': 'cleanup', 'id': f'cl{k}', 'script': [rng.choice([['ok'], ['slow', 1.0], ['arb'], ['perm']])], 'opts': {'backoff': 0.3, 'retries': 2}})
    daemons = []
    for k in range(rng.randint(0, 2)):
        ptype = rng.choice(['obedient', 'linger', 'stubborn', 'swallow'])
        persona: dict[str, Any] = {'type': ptype}
        if ptype == 'linger':
            persona['linger'] = rng.choice([0.5, 2.0])
        if ptype == 'swallow':
            persona.update(n=1, linger=rng.choice([0.5, 3.0]))
        opts: dict[str, Any] = {}
        b, t = rng.choice([None, 1.0]), rng.choice([None, 1.0, 2.0])
        if ptype in ('stubborn', 'swallow') and t is None:
            t = 1.0
        if b is not None:
            opts['cancellation_backoff'] = b
        if t is not None:
            opts['cancellation_timeout'] = t
        daemons.append({'kind': 'daemon', 'id': f'd{k}', 'persona': persona, 'opts': opts})
    handlers += daemons
    slow_h = rng.random() < 0.5
    handlers.append({'kind': 'update', 'id': 'u1', 'script': [['slow', 3.0]] * 50 if slow_h else []})
    if trig == 'worker_fatal':
        handlers.append({'kind': 'update', 'id': 'boom', 'opts': {'field': 'spec.boom'}, 'script': [['fatal']]})
    handlers.append({'kind': 'create', 'id': 'c1'})
    handlers.append({'kind': 'timer', 'id': 'tm', 'opts': {'interval': 1.0}}) if rng.random() < 0.3 else None
    tl: list[list[Any]] = [[0.0, 'create', 'o0', {'spec': {'x': 0}}], [0.0, 'create', 'o1', {'spec': {'x': 0}}]]
    tl.append([0.5, 'start', 'op1'])
    t_trig = round(rng.choice([0.5, 0.6, 1.0, 2.0, 3.5, 6.0, 9.0, 12.0]) + rng.choice([0.0, 0.001, 0.13]), 3)
    if trig == 'stop_in_startup':
        t_trig = round(0.5 + rng.choice([0.0, 0.001, 1.0, 3.0, 3.999, 4.0]), 3)
    if trig in ('watch_error', 'worker_fatal', 'keepalive_down'):
        t_trig = round(rng.choice([6.0, 7.5, 9.0, 12.0]) + rng.choice([0.0, 0.001, 0.13]), 3)      # after the longest startup: there must be a stream/worker to hit
    for k in range(14):
        tl.append([round(1.0 + k * 0.9, 3), 'edit', rng.choice(['o0', 'o1']), {'spec': {'x': k + 1}}])
    faults: list[dict[str, Any]] = []
    if trig == 'stop_api_down':
        # the API becomes unreachable (every request and every open stream fails); the operator is then told to stop: it must still exit in time
        t_trig = round(rng.choice([6.0, 8.0, 11.0]) + rng.choice([0.0, 0.001, 0.13]), 3)
        faults.append({'client': 'op1', 'match': {}, 'window': [t_trig, 1e9], 'actions': [['conn', {}]]})
        tl.append([t_trig, 'break', 'conn'])
        tl.append([round(t_trig + rng.choice([0.0, 0.05, 0.5, 1.5, 4.0]), 3), 'stop', 'op1'])
    if trig in ('stop', 'stop_in_startup'):
        tl.append([t_trig, 'stop', 'op1'])
    elif trig == 'cancel':
        tl.append([t_trig, 'cancel', 'op1'])
    elif trig == 'watch_error':
        tl.append([t_trig, 'break', 'error'])
    elif trig == 'worker_fatal':
        tl.append([t_trig, 'edit', 'o0', {'spec': {'boom': 1}}])
    elif trig == 'discovery_down':
        faults.append({'client': 'op1', 'match': {'kind': 'discovery'}, 'actions': [['status', {'status': 500}]]})
    elif trig == 'keepalive_down':
        faults.append({'client': 'op1', 'match': {'kind': 'patch', 'plural': 'clusterkopfpeerings'}, 'window': [t_trig, 1e9], 'actions': [['status', {'status': 500}]]})
    extra: dict[str, Any] = {}
    if trig == 'stop_in_ns_removal':
        # a served namespace disappears while a handler of one of its objects is in flight: the orchestrator is busy draining that watcher
        # (up to the workers' exit timeout) when the stop request arrives
        for h in handlers:
            if h['id'] == 'u1':
                h['script'] = [['slow', 3.0]] * 50
        t_trig = round(rng.choice([8.0, 9.5, 11.0]) + rng.choice([0.0, 0.001, 0.13]), 3)
        tl = [op for op in tl if not (op[1] == 'create' and op[2] == 'o1')] + [[0.0, 'create', 'ns2/o1', {'spec': {'x': 0}}]]
        tl = [[op[0], op[1], 'ns2/o1', *op[3:]] if op[1] == 'edit' and op[2] == 'o1' else op for op in tl]
        tl.append([round(t_trig - rng.choice([0.3, 1.0, 2.0]), 3), 'edit', 'ns2/o1', {'spec': {'x': 500}}])
        tl.append([t_trig, 'ns_del', 'ns2'])
        tl.append([round(t_trig + rng.choice([0.0, 0.001, 0.05, 0.5, 1.0, 1.9]), 3), 'stop', 'op1'])
        extra = {'namespaces': ['ns1', 'ns2'], 'operator_kwargs': {'namespaces': ['ns*']}}
        peering = False
    tl.sort(key=lambda x: x[0])
    desc: dict[str, Any] = {**extra, 'seed': rng.randrange(1 << 30), 'handlers': handlers, 'timeline': tl, 'faults': faults, 'quiet': None, 'latency': 0.001, 'end': 'stop', 'exit_wait': 200.0,
                            'settings': {'queueing__idle_timeout': 1.0, 'persistence__consistency_timeout': 0.5, 'networking__error_backoffs': [0.2, 0.3], 'peering__lifetime': 12,
                                         'background__cancellation_polling': 1.0},
                            'trigger': trig, 't_trigger': t_trig, 't_final': 40.0, 'post_yields': rng.choice([0, 0, 0, 1, 2, 3, 5, 8])}
    if peering:
        desc['peering'] = {'name': 'default'}
    return desc


def directed() -> list[dict[str, Any]]:
    """Two narrow windows, hit on purpose for every phase shift: a stop at the instant the startup finishes (cluster scanning under way),
    and a stop while a vanished namespace's watcher is being drained and its object's daemon is being stopped in memory."""
    out: list[dict[str, Any]] = []
    base_settings = {'queueing__idle_timeout': 1.0, 'persistence__consistency_timeout': 0.5, 'networking__error_backoffs': [0.2, 0.3], 'peering__lifetime': 12,
                     'background__cancellation_polling': 1.0}
    k = 0
    for yields in (0, 1, 2, 3, 5, 8):
        for dt in (0.0, 0.0005, 0.001, 0.002, 0.003):
            k += 1
            handlers = [{'kind': 'startup', 'id': 'st0', 'script': [['slow', 1.5]], 'opts': {'backoff': 0.7}}, {'kind': 'cleanup', 'id': 'cl0', 'script': [['ok']], 'opts': {}},
                        {'kind': 'update', 'id': 'u1', 'script': []}, {'kind': 'create', 'id': 'c1'}]
            tl = [[0.0, 'create', 'o0', {'spec': {'x': 0}}], [0.5, 'start', 'op1'], [round(2.0 + dt, 6), 'stop', 'op1']]
            out.append({'name': f'dirs{k}', 'desc': {'seed': k, 'handlers': handlers, 'timeline': tl, 'faults': [], 'quiet': None, 'latency': 0.001, 'end': 'stop', 'exit_wait': 200.0,
                                                     'settings': dict(base_settings), 'trigger': 'stop', 't_trigger': round(2.0 + dt, 6), 't_final': 20.0, 'post_yields': yields}})
    for yields in (0, 2, 5):
        for d_stop in (0.0, 0.3, 0.9, 1.5, 1.9):
            for persona, opts in (({'type': 'stubborn'}, {'cancellation_backoff': 3.0, 'cancellation_timeout': 1.0}), ({'type': 'linger', 'linger': 4.0}, {'cancellation_backoff': 5.0, 'cancellation_timeout': 2.0})):
                k += 1
                handlers = [{'kind': 'cleanup', 'id': 'cl0', 'script': [['ok']], 'opts': {}}, {'kind': 'daemon', 'id': 'd0', 'persona': persona, 'opts': opts},
                            {'kind': 'update', 'id': 'u1', 'script': [['slow', 1.5]] * 50}, {'kind': 'create', 'id': 'c1'}]
                tl = [[0.0, 'create', 'o0', {'spec': {'x': 0}}], [0.0, 'create', 'ns2/o1', {'spec': {'x': 0}}], [0.5, 'start', 'op1'],
                      [7.3, 'edit', 'ns2/o1', {'spec': {'x': 1}}], [8.0, 'ns_del', 'ns2'], [round(8.0 + d_stop, 3), 'stop', 'op1']]
                out.append({'name': f'dirn{k}', 'desc': {'seed': k, 'handlers': handlers, 'timeline': tl, 'faults': [], 'quiet': None, 'latency': 0.001, 'end': 'stop', 'exit_wait': 200.0,
                                                         'settings': dict(base_settings), 'trigger': 'stop_in_ns_removal', 't_trigger': 8.0, 't_final': 30.0, 'post_yields': yields,
                                                         'namespaces': ['ns1', 'ns2'], 'operator_kwargs': {'namespaces': ['ns*']}}})
    # an essential task fails WHILE the orchestrator is busy with something else: a served stream gets an unknown ERROR event while the watcher of a
    # namespace that has just disappeared is being drained (its worker has a slow handler in flight): the failure is noticed all the same, the operator
    # shuts down and re-raises within the bounded grace periods
    for yields in (0, 2, 5):
        for d_err in (0.0, 0.001, 0.2, 0.7, 1.2):
            k += 1
            handlers = [{'kind': 'cleanup', 'id': 'cl0', 'script': [['ok']], 'opts': {}}, {'kind': 'update', 'id': 'u1', 'script': [['slow', 1.5]] * 50}, {'kind': 'create', 'id': 'c1'}]
            tl = [[0.0, 'create', 'o0', {'spec': {'x': 0}}], [0.0, 'create', 'ns2/o1', {'spec': {'x': 0}}], [0.5, 'start', 'op1'],
                  [7.3, 'edit', 'ns2/o1', {'spec': {'x': 1}}], [8.0, 'ns_del', 'ns2'], [round(8.0 + d_err, 3), 'break', 'error']]
            out.append({'name': f'dire{k}', 'desc': {'seed': k, 'handlers': handlers, 'timeline': tl, 'faults': [], 'quiet': None, 'latency': 0.001, 'end': 'stop', 'exit_wait': 200.0,
                                                     'settings': dict(base_settings), 'trigger': 'watch_error', 't_trigger': round(8.0 + d_err, 3), 't_final': 40.0, 'post_yields': yields,
                                                     'namespaces': ['ns1', 'ns2'], 'operator_kwargs': {'namespaces': ['ns*']}}})
    # the peering keep-alive fails on a write that the server HAS applied (the response is lost): its record is in the peering object although the task
    # never saw an answer -- the very first keep-alive included. The operator shuts down (an essential task failed) and still withdraws the record.
    for yields in (0, 2):
        for nth in (1, 2, 3):
            k += 1
            handlers = [{'kind': 'cleanup', 'id': 'cl0', 'script': [['ok']], 'opts': {}}, {'kind': 'update', 'id': 'u1', 'script': []}, {'kind': 'create', 'id': 'c1'}]
            tl = [[0.0, 'create', 'o0', {'spec': {'x': 0}}], [0.5, 'start', 'op1']]
            out.append({'name': f'dirk{k}', 'desc': {'seed': k, 'handlers': handlers, 'timeline': tl, 'quiet': None, 'latency': 0.001, 'end': 'stop', 'exit_wait': 200.0,
                                                     'faults': [{'client': 'op1', 'match': {'kind': 'patch', 'plural': 'clusterkopfpeerings'}, 'nth': [nth, nth + 1, nth + 2], 'actions': [['lost', {}]]}],
                                                     'settings': dict(base_settings, networking__error_backoffs=[0.1, 0.1]), 'peering': {'name': 'default'},
                                                     'trigger': 'keepalive_lost', 't_trigger': 0.5, 't_final': 40.0, 'post_yields': yields}})
    return out


def gen_cases(tier: str, seed: int):
    rng = random.Random(f'C20-{seed}')
    n = 300 if tier == 'quick' else 8000
    return directed() + [{'name': f'rnd{i}', 'desc': rnd_desc(rng, i)} for i in range(n)]


def run_case(case: dict[str, Any]) -> dict[str, Any]:
    from kv.monitors import Stall
    from kv.oracles import Index, trace_lines
    from kv.world import run_world

    Stall.take_hits()
    desc = dict(case['desc'])
    desc['timeline'] = list(desc['timeline']) + [[desc['t_final'], 'edit', 'o1', {'status': {'end': 1}}]]
    w = run_world(desc)
    ix = Index(w)
    viol: list[dict[str, Any]] = []
    cov = {k: 0 for k in GATES}
    cov['runs'] = 1
    for s in Stall.take_hits():
        viol.append({'mech': 'stall', 'msg': 'event loop stalled', 'witness': s})
    inc = w.incs['op1']
    name = 'op1'
    trig = desc['trigger']
    reqs = [r for r in w.requests if r.client == name]
    starts = [c for c in ix.calls if c['inc'] == name and c['kind'] == 'startup']
    cleanups = [c for c in ix.calls if c['inc'] == name and c['kind'] == 'cleanup']
    specs = {h['id']: h for h in desc['handlers']}
    n_start = sum(1 for h in desc['handlers'] if h['kind'] == 'startup')
    ok_start = {c['h'] for c in starts if c['seq'] in ix.rets and ix.rets[c['seq']]['outcome'] == 'ok'}
    startup_done = len(ok_start) == n_start
    t_startup_end = max([ix.rets[c['seq']]['t'] for c in starts if c['seq'] in ix.rets] or [inc.t_start or 0.0])
    t_end = inc.t_end
    sig_parts = [trig, str(desc['t_trigger']), str(n_start), str(startup_done)]

    # ---- L1/L2: nothing before the startup handlers have all succeeded ---------------------------------------------------------------
    cov['first_request_checks'] = 1
    if reqs:
        if not startup_done:
            viol.append({'mech': 'api-activity-despite-unfinished-startup', 'msg': f"startup handlers succeeded: {sorted(ok_start)} of {n_start}; yet {len(reqs)} API requests were made (first: {reqs[0].method} {reqs[0].path} at t={reqs[0].t})",
                         'witness': {'startup_calls': [(c['h'], c['t'], ix.rets.get(c['seq'], {}).get('outcome')) for c in starts]}})
        elif reqs[0].t < t_startup_end - 1e-9:
            viol.append({'mech': 'api-activity-before-startup-finished', 'msg': f"first API request at t={reqs[0].t} ({reqs[0].method} {reqs[0].path}), the last startup handler finished at t={t_startup_end}", 'witness': None})
    if inc.t_ready is not None and (not startup_done or inc.t_ready < t_startup_end - 1e-9):
        viol.append({'mech': 'ready-before-startup-finished', 'msg': f"the ready flag was raised at t={inc.t_ready}; startup handlers succeeded: {sorted(ok_start)} of {n_start} (last finished t={t_startup_end})", 'witness': None})
    never_began = t_end is None and inc.task is not None and inc.task.done()       # cancelled before the call had even begun
    if startup_done and inc.t_ready is None and trig not in ('stop_in_startup',) and not never_began and (t_end is None or t_end > t_startup_end + 0.01):
        viol.append({'mech': 'ready-flag-never-raised', 'msg': f"all startup handlers succeeded by t={t_startup_end}, the ready flag was never raised", 'witness': None})
    if trig == 'startup_fail':
        cov['startup_failures'] = 1
        if inc.exc is None:
            viol.append({'mech': 'startup-failure-not-raised', 'msg': f"a startup handler failed for good, yet kopf.operator() returned normally (t_end={t_end}); startup outcomes: "
                                                                      f"{[(c['h'], ix.rets.get(c['seq'], {}).get('outcome')) for c in starts]}", 'witness': None})
    if trig == 'stop_in_startup' and not startup_done:
        cov['stops_during_startup'] = 1

    # ---- L3: bounded return ------------------------------------------------------------------------------------------------------------
    t_fire: float | None = None
    if trig in ('stop', 'stop_in_startup', 'stop_in_ns_removal', 'stop_api_down'):
        t_fire = inc.t_stop_requested
    elif trig == 'cancel':
        t_fire = desc['t_trigger']
    elif trig == 'watch_error':
        hit = [s for s in w.sim.kube.streams if s.client.name == name and s.plural == 'kopfexamples' and s.closed_at is not None and abs(s.closed_at - desc['t_trigger']) < 1e-6]
        t_fire = desc['t_trigger'] if hit else None
    elif trig == 'worker_fatal':
        t_fire = next((c['t'] for c in ix.calls if c['inc'] == name and c['h'] == 'boom'), None)
    elif trig == 'discovery_down':
        t_fire = t_startup_end
    elif trig in ('keepalive_down', 'keepalive_lost'):
        bad = [r for r in reqs if r.plural == 'clusterkopfpeerings' and r.kind == 'patch' and r.fault]
        t_fire = (bad[0].t if trig == 'keepalive_down' else bad[-1].t) if bad else None
    elif trig == 'startup_fail':
        t_fire = t_startup_end
    daemon_grace = max([(specs[h]['opts'].get('cancellation_backoff') or 0) + (specs[h]['opts'].get('cancellation_timeout') or 0) + (specs[h]['persona'].get('linger') or 0)
                        for h in specs if specs[h]['kind'] == 'daemon'] or [0.0])
    cleanup_grace = sum(1.0 + 0.3 * 3 for h in specs.values() if h['kind'] == 'cleanup')
    bound = 2.0 + 5.0 + 2.0 + daemon_grace + cleanup_grace + 3.0 + (4.0 if trig in ('stop_in_startup', 'startup_fail') else 0.0) + (1.0 if trig in ('discovery_down', 'keepalive_down', 'keepalive_lost') else 0.0)
    cov['bounded_exits'] = 1
    key = {'stop': 'stop_flag_runs', 'stop_api_down': 'api_down_runs', 'stop_in_ns_removal': 'ns_removal_runs', 'cancel': 'cancel_runs', 'watch_error': 'fatal_watch_runs', 'worker_fatal': 'worker_failure_runs', 'discovery_down': 'root_failure_runs',
           'keepalive_down': 'peering_failure_runs'}.get(trig)
    if key:
        cov[key] = 1
    if trig == 'cancel' and t_end is None and inc.task is not None and inc.task.done():
        t_fire = None      # cancelled before the call had even begun
    if t_fire is not None:
        if t_end is None or t_end > t_fire + bound:
            stopped_at_final = inc.t_stop_requested is not None and trig not in ('stop', 'stop_in_startup', 'stop_in_ns_removal', 'stop_api_down') and inc.t_stop_requested > t_fire + bound - 1e-6
            viol.append({'mech': 'operator-lingers-after-failure' if trig not in ('stop', 'stop_in_startup', 'stop_in_ns_removal', 'stop_api_down', 'cancel') else 'exit-not-bounded',
                         'msg': f"trigger {trig} at t={t_fire}: kopf.operator() returned at t={t_end} (bound: {round(t_fire + bound, 3)})"
                                + ("; it only ended because the harness stopped it at the end of the run" if stopped_at_final else ''), 'witness': None})
        # a tighter bound when nothing can legitimately linger: no daemons/timers, no handler in flight at the trigger -> no worker drain, no hung-task grace
        busy = [c for c in ix.calls if c['inc'] == name and c['kind'] in ('daemon', 'timer', 'create', 'update', 'startup') and c['t'] <= t_fire + 1e-9
                and (c['seq'] not in ix.rets or ix.rets[c['seq']]['t'] >= t_fire - 1e-9)]
        has_bg = any(h['kind'] in ('daemon', 'timer') for h in specs.values())
        if trig in ('stop',) and startup_done and not busy and not has_bg and not desc.get('peering') and t_end is not None and t_end > t_fire + cleanup_grace + 1.0:
            viol.append({'mech': 'exit-delayed-by-lingering-tasks', 'msg': f"stop requested at t={t_fire} with no daemon, timer or handler in flight: kopf.operator() returned only at t={t_end} "
                                                                            f"(cleanup handlers need at most {cleanup_grace}s): something was left hanging and waited for", 'witness': None})
        # ---- L4: failures are re-raised -----------------------------------------------------------------------------------------------------
        if trig in ('watch_error', 'worker_fatal', 'discovery_down', 'keepalive_down', 'keepalive_lost') and t_end is not None and t_end <= t_fire + bound and inc.exc is None and not inc.cancelled:
            viol.append({'mech': 'failure-not-reraised', 'msg': f"trigger {trig} at t={t_fire}: kopf.operator() returned normally at t={t_end} instead of re-raising the failure", 'witness': None})
        if trig in ('stop', 'stop_in_ns_removal') and inc.exc is not None and not any(specs[h]['kind'] == 'cleanup' and specs[h]['script'][0][0] in ('arb', 'perm') for h in specs):
            viol.append({'mech': 'stop-raises', 'msg': f"a plain stop request made kopf.operator() raise {inc.exc!r}", 'witness': None})

    # ---- L5: cleanup runs last -------------------------------------------------------------------------------------------------------------
    graceful = trig in ('stop', 'stop_in_ns_removal', 'watch_error', 'worker_fatal', 'discovery_down', 'keepalive_down', 'keepalive_lost') and startup_done and t_end is not None
    n_clean = sum(1 for h in specs.values() if h['kind'] == 'cleanup')
    if graceful and n_clean and t_fire is not None and t_end <= t_fire + bound:
        cov['cleanup_order_checks'] = 1
        if not cleanups:
            viol.append({'mech': 'cleanup-not-run', 'msg': f"trigger {trig} at t={t_fire}: the operator exited at t={t_end} without calling its {n_clean} cleanup handler(s)", 'witness': None})
        else:
            tc = cleanups[0]['t']
            gc = cleanups[0]['g']
            open_streams = [s for s in w.sim.kube.streams if s.client.name == name and s.opened <= tc and (s.closed_at is None or s.closed_at > tc + 1e-9)]
            if open_streams:
                s0 = open_streams[0]
                viol.append({'mech': 'cleanup-before-streams-closed', 'msg': f"the first cleanup handler ran at t={tc} while the watch stream for {s0.plural} (opened t={s0.opened}) was still open (closed {s0.closed_at})", 'witness': None})
            running_calls = [c for c in ix.calls if c['inc'] == name and c['kind'] in ('daemon', 'timer', 'create', 'update') and c['g'] < gc
                             and (c['seq'] not in ix.rets or ix.rets[c['seq']]['g'] > gc)]
            # daemons that kopf has given up on, as configured (no/elapsed cancellation timeout: "leaving it orphaned"), may still be winding down
            abandoned_ok = [c for c in running_calls if c['kind'] == 'daemon' and (specs[c['h']]['persona']['type'] in ('swallow',)
                                                                                 or 'DAEMON_ABANDONED' in str(ix.rets.get(c['seq'], {}).get('reasons')))]
            running_calls = [c for c in running_calls if c not in abandoned_ok]
            if running_calls:
                c0 = running_calls[0]
                viol.append({'mech': 'cleanup-before-handlers-ended', 'msg': f"the first cleanup handler ran at t={tc} while {c0['h']} ({c0['kind']}) for {c0['uid']}, started at t={c0['t']}, was still running "
                                                                            f"(ended {ix.rets[c0['seq']]['t'] if c0['seq'] in ix.rets else 'never'})", 'witness': None})
            later = [r for r in reqs if r.t > tc + 1e-9 and r.kind not in ('other',) and not (r.plural == 'events')]
            if later:
                viol.append({'mech': 'api-activity-after-cleanup-started', 'msg': f"the first cleanup handler ran at t={tc}; {len(later)} API request(s) followed (first: {later[0].method} {later[0].path} at t={later[0].t})", 'witness': None})

    # ---- L6/L7: record withdrawn, daemons stopped in stages --------------------------------------------------------------------------------------
    if desc.get('peering') and startup_done and trig in ('stop', 'watch_error', 'worker_fatal', 'discovery_down', 'keepalive_lost') and t_end is not None and t_fire is not None and t_end <= t_fire + bound:
        puid = next((u for u, vs in w.history.items() if vs[0]['plural'] == 'clusterkopfpeerings'), None)
        ph = [v for v in w.history.get(puid, []) if v['t'] <= t_end + 1e-6]
        ever = any(name in (v['body'].get('status') or {}) for v in ph)
        if ever:
            cov['withdrawals'] = 1
            if ph and name in (ph[-1]['body'].get('status') or {}):
                viol.append({'mech': 'record-not-withdrawn-on-exit', 'msg': f"trigger {trig}: the operator exited at t={t_end}; its peering record is still there: {(ph[-1]['body'].get('status') or {}).get(name)}", 'witness': None})
    if t_end is not None and trig != 'cancel':
        for c in ix.calls:
            if c['inc'] != name or c['kind'] != 'daemon':
                continue
            r = ix.rets.get(c['seq'])
            if r is None:
                viol.append({'mech': 'daemon-outlives-operator', 'msg': f"daemon {c['h']} for {c['uid']} (started t={c['t']}) never ended although the operator exited at t={t_end}", 'witness': None})
                break
            cov['daemons_stopped'] += 1
            if r['t'] > t_end + 1e-6:
                viol.append({'mech': 'daemon-outlives-operator', 'msg': f"daemon {c['h']} for {c['uid']} ended at t={r['t']}, after kopf.operator() had returned at t={t_end}", 'witness': None})
                break
            if t_fire is not None and startup_done and r.get('flag_seen_at') is None and r['outcome'] == 'cancelled' and r['t'] >= t_fire:
                viol.append({'mech': 'daemon-cancelled-without-stop-flag', 'msg': f"daemon {c['h']} for {c['uid']} was cancelled at t={r['t']} on the operator's exit without its stop flag ever being raised "
                                                                                 f"(reasons {r.get('reasons')})", 'witness': None})
                break

    # ---- L8: nothing lingers after the return -------------------------------------------------------------------------------------------------------
    if t_end is not None:
        late = [r for r in reqs if r.t > t_end + 1e-6]
        if late:
            viol.append({'mech': 'activity-after-exit', 'msg': f"kopf.operator() returned at t={t_end}; {len(late)} API request(s) were made afterwards (first: {late[0].method} {late[0].path} at t={late[0].t})", 'witness': None})
        late_calls = [c for c in ix.calls if c['inc'] == name and c['t'] > t_end + 1e-6]
        if late_calls:
            viol.append({'mech': 'activity-after-exit', 'msg': f"kopf.operator() returned at t={t_end}; handler {late_calls[0]['h']} was invoked afterwards at t={late_calls[0]['t']}", 'witness': None})
    order = sorted([(c['g'], 'S') for c in starts] + [(c['g'], 'C') for c in cleanups] + ([(reqs[0].g, 'R0'), (reqs[-1].g, 'Rn')] if reqs else []))
    sig_parts.append(''.join(k for _, k in order))
    nontrivial = trig in ('startup_fail', 'stop_in_startup') or (startup_done and any(c['kind'] in ('daemon', 'update') for c in ix.calls if c['inc'] == name))
    sample = None
    if case['name'] == 'rnd0':
        sample = {'trigger': trig, 't_trigger': desc['t_trigger'], 'handlers': [{k: v for k, v in h.items() if k != 'script'} for h in desc['handlers']], 't_ready': inc.t_ready, 't_end': t_end,
                  'exc': repr(inc.exc), 'first_request': reqs[0].t if reqs else None, 'cleanup_calls': [c['t'] for c in cleanups]}
    return {'violations': viol, 'cov': cov, 'sig': hashlib.sha1('|'.join(sig_parts).encode()).hexdigest()[:16], 'nontrivial': nontrivial, 'sample': sample,
            'trace': trace_lines(w) if case.get('_verbose') else None}

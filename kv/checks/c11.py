"""
C11 -- handler error policy: retry delays, permanence, retries/timeout limits -- for change handlers, sub-handlers,
daemons, timers and activities alike, and for change handlers also across operator restarts.
"""
from __future__ import annotations

import copy
import hashlib
import random
from typing import Any

ID = 'C11'
LEVEL = 'exploration'
STALL = True
TIMEOUT_PER_CASE = 120.0
TECHNIQUE = ('runtime monitoring: offline checker over recorded attempt sequences (call/return time, retry number, outcome) per handler and object, delimited by '
             'server-side cycle closures, against the declared errors/retries/timeout/backoff policy; exact lower bounds on retry gaps in virtual time')
LEVEL_TEXT = ('Held on the explored policies: errors mode {default, temporary, permanent, ignored} x retries {None,0,1,2,3} x timeout {None,0,short,about the sum of delays,long} x '
              'backoff x outcome scripts over {temporary(d), arbitrary, permanent, ok, slow} for change handlers, sub-handlers, daemons, timers and startup activities, with '
              'graceful restarts and kills mid-sequence. Policies and scripts are sampled; time bounds are exact (virtual clock).')
LEVEL_NOTE = ('Attempt sequences of change handlers are delimited by the server-side cycle closures (independent of kopf\'s own retry numbering). With kills, an attempt whose '
              'record never reached the server is legitimately repeated with the same number.')
RULE = ("scenarios: 1-2 objects, 1-3 change handlers (+sub-handlers), 0-1 daemon, 0-1 timer, 0-2 startup handlers, each with a random policy and script; non-trivial = a "
        "sequence with >=2 attempts or a limit reached; distinct = hash of (policy, outcome sequence)")
ASSUMPTIONS = ["fake API server", "watch echo lag below the consistency timeout"]
GATES = {'sequences': 300, 'retried_sequences': 100, 'limit_retries_reached': 10, 'limit_timeout_reached': 10, 'permanent_ends': 20, 'ignored_done': 5,
         'daemon_sequences': 10, 'timer_sequences': 10, 'activity_sequences': 10, 'across_restart': 5, 'gaps_checked': 200}

DEFAULT_BACKOFF = 1.5


def rnd_policy(rng: random.Random) -> dict[str, Any]:
    o: dict[str, Any] = {}
    m = rng.choice([None, None, 'temporary', 'permanent', 'ignored'])
    if m:
        o['errors'] = m
    r = rng.choice([None, None, None, 0, 1, 2, 3])
    if r is not None:
        o['retries'] = r
    t = rng.choice([None, None, None, 0, 1.0, 2.5, 6.0, 100.0])
    if t is not None:
        o['timeout'] = t
    b = rng.choice([None, None, 0.5, 2.0])
    if b is not None:
        o['backoff'] = b
    return o


def rnd_script(rng: random.Random, n: int = 5) -> list[Any]:
    atoms = [['temp', 0.5], ['temp', 1], ['temp', 2], ['arb'], ['arb'], ['perm'], ['ok'], ['slow', 0.7, ['temp', 1]], ['slow', 0.4, ['arb']], ['slow', 1.2, ['ok']]]
    return [copy.deepcopy(rng.choice(atoms)) for _ in range(rng.randint(0, n))]


def rnd_desc(rng: random.Random, i: int) -> dict[str, Any]:
    handlers: list[dict[str, Any]] = []
    for j in range(rng.randint(1, 3)):
        kind = rng.choice(['create', 'create', 'update'])
        h: dict[str, Any] = {'kind': kind, 'id': f'{kind[0]}{j}', 'script': rnd_script(rng), 'opts': rnd_policy(rng)}
        if rng.random() < 0.25:
            h['subs'] = [{'id': 's1', 'script': rnd_script(rng, 3), 'opts': rnd_policy(rng)}]
            h['script'] = rng.choice([[], [['temp', 1]], [['arb']]])
        handlers.append(h)
    if rng.random() < 0.4:
        handlers.append({'kind': 'daemon', 'id': 'dm', 'persona': {'type': 'fail'}, 'script': rnd_script(rng), 'opts': rnd_policy(rng)})
    if rng.random() < 0.4:
        handlers.append({'kind': 'timer', 'id': 'tm', 'script': rnd_script(rng, 7), 'opts': dict(rnd_policy(rng), interval=rng.choice([1.0, 3.0]))})
    for j in range(rng.choice([0, 0, 1, 2])):
        pol = rnd_policy(rng)
        pol.pop('errors', None) if rng.random() < 0.5 else None
        sc = rnd_script(rng, 3)
        handlers.append({'kind': 'startup', 'id': f'st{j}', 'script': sc, 'opts': pol})
    tl: list[list[Any]] = [[0.0, 'start', 'op1'], [1.0, 'create', 'o0', {'spec': {'x': 0}}]]
    if rng.random() < 0.4:
        tl.append([1.2, 'create', 'o1', {'spec': {'x': 0}}])
    t = 2.0
    for k in range(rng.randint(0, 3)):
        t = round(t + rng.choice([1.0, 4.0, 9.0]), 3)
        tl.append([t, 'edit', rng.choice(['o0', 'o0', 'o1']), {'spec': {'x': k + 1}} if rng.random() < 0.7 else {'status': {'f': k}}])
    desc: dict[str, Any] = {'seed': rng.randrange(1 << 30), 'handlers': handlers, 'timeline': tl, 'quiet': 25.0, 'horizon': 500.0,
                            'lifecycle': rng.choice([None, 'one_by_one', 'all_at_once']), 'storage': rng.choice(['default', 'status']),
                            'settings': {'queueing__idle_timeout': 1.0, 'persistence__consistency_timeout': 1.0, 'execution__default_backoff': DEFAULT_BACKOFF},
                            'lag': {'values': [0.0]}}
    r = rng.random()
    if r < 0.25:
        ts = round(rng.uniform(1.2, t + 2), 3)
        tl.append([ts, 'stop_wait', 'op1'])
        tl.append([round(ts + rng.choice([0.3, 2.0]), 3), 'start', 'op2'])
        tl.sort(key=lambda x: x[0])
    elif r < 0.45:
        desc['faults'] = [{'client': 'op1', 'match': {'kind': 'patch', 'plural': 'kopfexamples'}, 'nth': rng.randint(1, 8), 'actions': [[rng.choice(['kill_before', 'kill_after']), {}]]}]
        desc['restart_after_kill'] = {'delay': rng.choice([0.5, 3.0]), 'max': 1}
    return desc


def _sync(desc: dict[str, Any], seed: int, i: int) -> dict[str, Any]:
    from kv.world import syncify
    return syncify(desc, random.Random(f'C11-sync-{seed}-{i}'))       # a share of the scenarios runs (some of) its handlers as threads


def gen_cases(tier: str, seed: int):
    rng = random.Random(f'C11-{seed}')
    cases: list[dict[str, Any]] = []
    S = {'queueing__idle_timeout': 1.0, 'persistence__consistency_timeout': 1.0, 'execution__default_backoff': DEFAULT_BACKOFF}
    # directed: each policy clause once, deterministically
    D = [
        ('retries3', [{'kind': 'create', 'id': 'c0', 'script': [['temp', 1]] * 6, 'opts': {'retries': 3}}]),
        ('retries0', [{'kind': 'create', 'id': 'c0', 'script': [['ok']], 'opts': {'retries': 0}}]),
        ('timeout0', [{'kind': 'create', 'id': 'c0', 'script': [['ok']], 'opts': {'timeout': 0}}]),
        ('timeout', [{'kind': 'create', 'id': 'c0', 'script': [['temp', 1]] * 9, 'opts': {'timeout': 3.5}}]),
        ('perm-mode', [{'kind': 'create', 'id': 'c0', 'script': [['arb'], ['ok']], 'opts': {'errors': 'permanent'}}, {'kind': 'create', 'id': 'c1', 'script': [['temp', 1], ['ok']]}]),
        ('ignored', [{'kind': 'create', 'id': 'c0', 'script': [['arb'], ['ok']], 'opts': {'errors': 'ignored'}}, {'kind': 'create', 'id': 'c1'}]),
        ('backoff', [{'kind': 'create', 'id': 'c0', 'script': [['arb'], ['arb'], ['ok']], 'opts': {'backoff': 2.0}}, {'kind': 'update', 'id': 'u0', 'script': [['arb'], ['ok']]}]),
        ('sub-parent-fails', [{'kind': 'create', 'id': 'c0', 'script': [['ok']], 'subs': [{'id': 's1', 'script': [['temp', 0.5], ['temp', 0.5], ['ok']]}], 'fail_after_subs': ['perm']}]),
        ('daemon-retries', [{'kind': 'daemon', 'id': 'dm', 'persona': {'type': 'fail'}, 'script': [['temp', 1], ['arb'], ['temp', 1], ['temp', 1]], 'opts': {'retries': 3, 'backoff': 0.5}}]),
        ('timer-errors', [{'kind': 'timer', 'id': 'tm', 'script': [['temp', 0.5], ['arb'], ['ok'], ['perm'], ['ok']], 'opts': {'interval': 2.0, 'backoff': 0.7}}]),
        ('startup-retry', [{'kind': 'startup', 'id': 'st0', 'script': [['temp', 1], ['arb'], ['ok']], 'opts': {'backoff': 0.5}}, {'kind': 'create', 'id': 'c0'}]),
        ('startup-perm', [{'kind': 'startup', 'id': 'st0', 'script': [['temp', 1], ['perm']]}, {'kind': 'create', 'id': 'c0'}]),
    ]
    for nm, hs in D:
        base = {'handlers': hs, 'settings': S, 'quiet': 20.0, 'horizon': 300.0,
                'timeline': [[0, 'start', 'op1'], [1, 'create', 'a', {'spec': {'x': 0}}], [12, 'edit', 'a', {'spec': {'x': 1}}]]}
        cases.append({'name': nm, 'desc': base})
        d2 = copy.deepcopy(base)
        d2['timeline'] += [[2.6, 'stop_wait', 'op1'], [3.0, 'start', 'op2']]
        d2['timeline'].sort(key=lambda x: x[0])
        cases.append({'name': nm + '-restart', 'desc': d2})
    # limits and final outcomes of SUB-handlers survive a change of cause: a resume handler whose children are still retrying after a restart, and
    # an edit (update supersedes resuming, the resume handler is mixed in) or a deletion arriving while the parent waits for a child's retry
    for kind_p in ('resume', 'update'):
        for t_edit in (5.0, 6.2, 8.0):
            for what in ('edit', 'edit-revert', 'delete'):
                hs = [{'kind': 'create', 'id': 'c0'}, {'kind': 'update', 'id': 'u0'},
                      {'kind': kind_p, 'id': 'p0', 'opts': ({'deleted': True} if kind_p == 'resume' else {}),
                       'subs': [{'id': 's1', 'script': [['perm'], ['ok']]}, {'id': 's2', 'script': [['temp', 1.5]] * 8, 'opts': {'retries': 3}},
                                {'id': 's3', 'script': [['arb'], ['arb'], ['ok'], ['ok']], 'opts': {'backoff': 1.0}}]},
                      {'kind': 'delete', 'id': 'd0', 'script': [['temp', 1]]}]
                tl = [[0, 'start', 'op1'], [1, 'create', 'a', {'spec': {'x': 0}}], [3, 'stop_wait', 'op1'], [4, 'start', 'op2']]
                if kind_p == 'update':
                    tl.append([4.5, 'edit', 'a', {'spec': {'x': 5}}])
                tl.append([t_edit, 'delete', 'a'] if what == 'delete' else [t_edit, 'edit', 'a', {'spec': {'y': 1}}])
                if what == 'edit-revert':
                    tl.append([round(t_edit + 1.0, 3), 'edit', 'a', {'spec': {'y': None}}])
                cases.append({'name': f'subs-superseded-{kind_p}-{t_edit}-{what}', 'desc': {'handlers': hs, 'settings': S, 'quiet': 20.0, 'horizon': 300.0, 'timeline': tl}})
    # a delay beyond the framework's 10-minute keep-alive cap of one sleep: the retry still comes no sooner than asked (and does come)
    cases.append({'name': 'long-delay', 'desc': {'handlers': [{'kind': 'create', 'id': 'c0', 'script': [['temp', 700], ['arb'], ['ok']], 'opts': {'backoff': 650.0}}], 'settings': S,
                                                  'quiet': 700.0, 'horizon': 4000.0, 'timeline': [[0, 'start', 'op1'], [1, 'create', 'a', {'spec': {'x': 0}}]]}})
    n = 500 if tier == 'quick' else 25000
    for i in range(n):
        cases.append({'name': f'rnd{i}', 'desc': _sync(rnd_desc(rng, i), seed, i)})
    return cases


def run_case(case: dict[str, Any]) -> dict[str, Any]:
    from kv.monitors import Stall
    from kv.oracles import Index, trace_lines
    from kv.world import run_world

    Stall.take_hits()
    desc = case['desc']
    # the 'fail_after_subs' directive: a parent that declares its sub-handlers and then fails itself
    for h in desc['handlers']:
        if h.get('fail_after_subs'):
            h['script'] = [h['fail_after_subs']]
            h['subs_before_outcome'] = True
    w = run_world(desc)
    ix = Index(w)
    viol: list[dict[str, Any]] = []
    cov = {k: 0 for k in GATES}
    for s in Stall.take_hits():
        viol.append({'mech': 'stall', 'msg': 'event loop stalled', 'witness': s})
    clean = not ix.kills and not ix.lost
    default_backoff = float((desc.get('settings') or {}).get('execution__default_backoff', 60))
    sig_parts: list[str] = []

    def policy(hid: str) -> dict[str, Any]:
        return (ix.specs.get(hid, {}).get('opts') or {})

    def judge(seq: list[dict[str, Any]], hid: str, label: str, changing: bool, restartable: bool) -> None:
        """seq: attempts in order [{call, ret}] of one handler in one cycle/instance."""
        if not seq:
            return
        pol = policy(hid)
        mode = (pol.get('errors') or ('temporary')).lower()
        retries, timeout = pol.get('retries'), pol.get('timeout')
        backoff = pol.get('backoff') if pol.get('backoff') is not None else default_backoff
        cov['sequences'] += 1
        if len(seq) > 1:
            cov['retried_sequences'] += 1
        if len({a['call']['inc'] for a in seq}) > 1:
            cov['across_restart'] += 1
        t0 = seq[0]['call']['t']
        outs = []
        ended = None      # why no further attempt is allowed after attempt i
        for i, a in enumerate(seq):
            c, r = a['call'], a['ret']
            out = r['outcome'] if r is not None else 'running'
            outs.append(out)
            # numbering
            if c.get('retry') is not None:
                if clean and len({x['call']['inc'] for x in seq}) == 1 and not ix.specs.get(hid, {}).get('subs'):
                    if c['retry'] != i:
                        viol.append({'mech': 'retry-numbering', 'msg': f"{label}: attempt #{i} was invoked with retry={c['retry']}", 'witness': [(x['call']['t'], x['call'].get('retry')) for x in seq]})
                elif i > 0 and seq[i - 1]['call'].get('retry') is not None and not (0 <= c['retry'] - seq[i - 1]['call']['retry'] <= 1):
                    viol.append({'mech': 'retry-numbering', 'msg': f"{label}: retry numbers jump from {seq[i - 1]['call']['retry']} to {c['retry']}", 'witness': None})
            if ended is not None:
                viol.append({'mech': 'attempt-after-final', 'msg': f"{label}: attempt #{i} at t={c['t']} although the handler had ended for good ({ended}); outcomes so far {outs}", 'witness': None})
                break
            if retries is not None and i >= retries:
                viol.append({'mech': 'retries-limit-exceeded', 'msg': f"{label}: invoked {i + 1} times with retries={retries}", 'witness': None})
                break
            if timeout is not None and c['t'] >= t0 + timeout + (1e-6 if timeout else -1e-6) and (i > 0 or timeout == 0):   # kopf stops at runtime >= timeout; 1 us earlier is still in time
                viol.append({'mech': 'timeout-limit-exceeded', 'msg': f"{label}: attempt #{i} started at t={c['t']}, first attempt at t={t0}, timeout={timeout}", 'witness': None})
                break
            # gap to the previous attempt
            if i > 0:
                p = seq[i - 1]
                pout = p['ret']['outcome'] if p['ret'] is not None else None
                need = None
                if pout == 'temp':
                    need = p['ret'].get('delay')
                    if need is None:
                        need = _temp_delay(ix, p['call'])
                elif pout == 'arb':
                    need = backoff
                if need is not None and p['ret'] is not None:
                    cov['gaps_checked'] += 1
                    if c['t'] < p['ret']['t'] + need - 1e-4:
                        viol.append({'mech': 'retry-too-soon', 'msg': f"{label}: attempt #{i} at t={c['t']}, previous attempt failed at t={p['ret']['t']} asking for {need}s "
                                     f"(gap {round(c['t'] - p['ret']['t'], 6)})", 'witness': None})
            # does this outcome end it?
            if out == 'ok' and not ix.specs.get(hid, {}).get('subs'):
                ended = 'success'
            elif out == 'perm':
                ended = 'permanent error'
                cov['permanent_ends'] += 1
            elif out == 'arb' and mode == 'permanent':
                ended = 'arbitrary error in permanent mode'
                cov['permanent_ends'] += 1
            elif out == 'arb' and mode == 'ignored':
                ended = 'arbitrary error ignored (counts as done)'
                cov['ignored_done'] += 1
            elif out in ('temp', 'arb'):
                if retries is not None and i + 1 >= retries:
                    ended = f'retries={retries} exhausted'
                    cov['limit_retries_reached'] += 1
                d = (r.get('delay') if out == 'temp' and r.get('delay') is not None else (_temp_delay(ix, c) if out == 'temp' else backoff)) or 0
                if timeout is not None and (r['t'] - t0) + d >= timeout - 1e-6:
                    ended = ended or f'timeout={timeout} would be exceeded'
                    cov['limit_timeout_reached'] += 1
        sig_parts.append(f"{hid}:{sorted(pol.items())}:{outs}")

    # ---- change handlers & sub-handlers: per object and cycle
    for uid in ix.uids:
        marks = ix.cycle_marks(uid)
        by_h: dict[str, list[dict[str, Any]]] = {}
        for c in ix.calls:
            if c['uid'] == uid and c['kind'] in ('create', 'update', 'delete', 'resume', 'sub') and not c.get('post_mortem'):
                by_h.setdefault(c['h'], []).append({'call': c, 'ret': ix.rets.get(c['seq'])})
        for hid, attempts in by_h.items():
            # split into cycles
            cur: list[dict[str, Any]] = []
            mi = 0
            last_reason = None
            for a in attempts:
                while mi < len(marks) and marks[mi] < a['call']['g']:
                    if cur:
                        judge(cur, hid, f'{hid} on {uid}', True, True)
                        cur = []
                    mi += 1
                # another cause supersedes the open cycle: the handlers of the old cause start afresh next time -- except the resume handlers (and their
                # children), which are mixed into whatever cause comes at first sight and are RE-PURPOSED with their record (attempts, start, final outcome) kept
                top = ix.specs.get(hid.split('/')[0], {})
                if last_reason not in (None, a['call'].get('reason')) and cur and top.get('kind') != 'resume':
                    judge(cur, hid, f'{hid} on {uid}', True, True)
                    cur = []
                last_reason = a['call'].get('reason')
                # with kills an attempt may be repeated verbatim: keep only the attempts whose outcome could be recorded
                if not clean and a['ret'] is not None and a['ret'].get('post_mortem'):
                    continue
                inc_a = w.incs.get(a['call']['inc'])
                if a['ret'] is not None and inc_a is not None and (inc_a.killed or inc_a.t_end is not None):
                    # was the outcome of this attempt ever written to the object? A killed operator may have lost it; so does one that is stopped
                    # while sibling handlers of the same cycle are still in flight (the cycle is cancelled before its results are persisted)
                    if not any(r.client == a['call']['inc'] and r.landed_uid == uid and r.g > a['ret']['g'] for r in ix.writes):
                        continue
                if a['ret'] is not None and a['ret']['outcome'] == 'cancelled':
                    continue
                cur.append(a)
            if cur:
                judge(cur, hid, f'{hid} on {uid}', True, True)
    # ---- daemons: per incarnation and object (one spawned instance = one sequence)
    for kind in ('daemon', 'timer'):
        groups: dict[tuple[str, str, str], list[dict[str, Any]]] = {}
        for c in ix.calls:
            if c['kind'] == kind and not c.get('post_mortem'):
                groups.setdefault((c['inc'], c['uid'], c['h']), []).append({'call': c, 'ret': ix.rets.get(c['seq'])})
        for (inc, uid, hid), attempts in groups.items():
            attempts = [a for a in attempts if not (a['ret'] is not None and a['ret']['outcome'] == 'cancelled')]
            if kind == 'daemon':
                cov['daemon_sequences'] += 1
                judge(attempts, hid, f'daemon {hid} on {uid} ({inc})', False, False)
            else:
                # a timer's counters start afresh after every success (or ignored error): the next tick is a fresh run. A failure for good
                # (permanent error, retries or timeout exhausted) ends the timer: any later tick is an attempt after the final outcome.
                cur = []
                for a in attempts:
                    if cur and a['call'].get('retry') == 0 and cur[-1]['ret'] is not None and _done_well(ix, hid, cur):
                        judge(cur, hid, f'timer {hid} on {uid} ({inc})', False, False)
                        cov['timer_sequences'] += 1
                        cur = []
                    cur.append(a)
                if cur:
                    judge(cur, hid, f'timer {hid} on {uid} ({inc})', False, False)
                    cov['timer_sequences'] += 1
    # ---- activities (startup): per incarnation
    groups2: dict[tuple[str, str], list[dict[str, Any]]] = {}
    for c in ix.calls:
        if c['kind'] == 'startup':
            groups2.setdefault((c['inc'], c['h']), []).append({'call': c, 'ret': ix.rets.get(c['seq'])})
    for (inc, hid), attempts in groups2.items():
        cov['activity_sequences'] += 1
        judge(attempts, hid, f'startup {hid} ({inc})', False, False)
    if w.quiesced is False:
        viol.append({'mech': 'no-quiescence', 'msg': 'the operator kept writing until the horizon', 'witness': [r.brief() for r in w.requests[-4:]]})
    sig = hashlib.sha1(';'.join(sig_parts).encode()).hexdigest()[:16]
    sample = None
    if case['name'] in ('retries3', 'rnd0'):
        sample = {'name': case['name'], 'handlers': desc['handlers'], 'attempts': [(round(c['t'], 3), c['h'], c.get('retry'), (ix.rets.get(c['seq']) or {}).get('outcome')) for c in ix.calls][:25]}
    return {'violations': viol, 'cov': cov, 'sig': sig, 'nontrivial': cov['retried_sequences'] > 0 or cov['limit_retries_reached'] > 0, 'sample': sample,
            'trace': trace_lines(w) if case.get('_verbose') else None}


def _temp_delay(ix: Any, call: dict[str, Any]) -> float | None:
    """The delay the scripted TemporaryError of this call asked for (from the script position)."""
    spec = ix.specs.get(call['h'], {})
    script = ix.w.sim.rec.scripts.get(call['h']) or spec.get('script') or []
    # which atom did this call consume? the n-th call of (h, uid) in global order
    n = 0
    for c in ix.calls:
        if c['h'] == call['h'] and c['uid'] == call['uid']:
            if c['seq'] == call['seq']:
                break
            n += 1
    atom = script[n] if n < len(script) else ['ok']
    while atom and atom[0] in ('slow', 'patch'):
        atom = atom[2] if len(atom) > 2 else ['ok']
    if atom and atom[0] == 'temp':
        return float(atom[1]) if len(atom) > 1 else 60.0
    return None


def _done_well(ix: Any, hid: str, cur: list[dict[str, Any]]) -> bool:
    last = cur[-1]['ret']
    if last is None:
        return False
    mode = ((ix.specs.get(hid, {}).get('opts') or {}).get('errors') or 'temporary').lower()
    return last['outcome'] == 'ok' or (last['outcome'] == 'arb' and mode == 'ignored')


def _final_for(ix: Any, hid: str, cur: list[dict[str, Any]], default_backoff: float) -> bool:
    last = cur[-1]['ret']
    if last is None:
        return False
    if last['outcome'] in ('ok', 'perm'):
        return True
    pol = (ix.specs.get(hid, {}).get('opts') or {})
    mode = (pol.get('errors') or 'temporary').lower()
    if last['outcome'] == 'arb' and mode in ('permanent', 'ignored'):
        return True
    if pol.get('retries') is not None and len(cur) >= pol['retries']:
        return True
    if pol.get('timeout') is not None:
        return True
    return False

"""
C16 -- persistence storages round-trip, isolate and produce valid annotation names.

Real storage classes; generated (handler id, record / essence, body, configuration); the patch they produce is merged
into the body by an independent RFC 7386 merge (what the API server would do), then read back / purged.
"""
from __future__ import annotations

import copy
import hashlib
import json
import os
import random
import re
import subprocess
from typing import Any

ID = 'C16'
LEVEL = 'exploration'
STALL = False
TIMEOUT_PER_CASE = 120.0
TECHNIQUE = ('runtime monitoring: reference-model oracle (independent merge-patch + Kubernetes qualified-name grammar) over the real storage classes '
             'driven with generated handler ids, records, bodies and storage configurations; cross-interpreter comparison of generated names under different hash seeds')
LEVEL_TEXT = ('Held on what was generated: handler ids over [A-Za-z0-9_./<>-] of length 1..300 (including families of long ids sharing a >=63-character prefix and '
              'sub-handler/field-suffixed forms), records with unicode and nulls, 10 progress and 6 diff-base storage configurations, plain bodies and '
              'ReplicaSets owned by Deployments; store->merge->fetch, store->purge->fetch, isolation of everything not belonging to the id, validity/stability/'
              'distinctness of annotation names. The id space is unbounded, hence exploration.')
LEVEL_NOTE = ('The API server is replaced by an independent RFC 7386 merge that drops nulls (what Kubernetes does). Name validity is checked against the documented '
              'qualified-name grammar, not against a real API server. Known finding: ids that start or end with a non-alphanumeric character.')
RULE = ("ids: random over the alphabet with lengths biased to 1-3, 40-70 and 250-300, plus families sharing a long prefix, plus 'parent/child' and 'fn/spec.field' forms; "
        "non-trivial = id longer than 1 char or record with a unicode/null field; distinct = hash of (configuration, id, record, body kind)")
ASSUMPTIONS = ["RFC 7386 merge with null-dropping models the API server", "Kubernetes qualified name grammar: prefix DNS-1123 subdomain <=253, name <=63 [A-Za-z0-9][-A-Za-z0-9_.]*[A-Za-z0-9]"]
GATES = {'roundtrips': 2000, 'purges': 2000, 'names_checked': 2000, 'long_ids': 300, 'replicaset_cases': 100, 'hashseed_ids': 100, 'diffbase_roundtrips': 300, 'empty_essences': 20}

ALPHA = 'ABCDEFGHIJKLMNOPQRSTUVWXYZabcdefghijklmnopqrstuvwxyz0123456789_./<>-'
ALNUM = 'ABCDEFGHIJKLMNOPQRSTUVWXYZabcdefghijklmnopqrstuvwxyz0123456789'
NAME_RE = re.compile(r'^([A-Za-z0-9][-A-Za-z0-9_.]*)?[A-Za-z0-9]$')
DNS_RE = re.compile(r'^[a-z0-9]([-a-z0-9]*[a-z0-9])?(\.[a-z0-9]([-a-z0-9]*[a-z0-9])?)*$')

PROGRESS_CONFIGS = ['ann:kopf.zalando.org:v1', 'ann:kopf.zalando.org:v2', 'ann:my-op.example.com:v1', 'ann:a.very-long-operator-prefix-name-to-hit-the-limits.example.com:v1',
                    'ann:a.very-long-operator-prefix-name-to-hit-the-limits.example.com:v2', 'ann:x.io:v2', 'annv:kopf.dev:v1', 'status:kopf', 'status:myop', 'smart:kopf.zalando.org', 'multi:b.example.org']
DIFFBASE_CONFIGS = ['ann:kopf.zalando.org:v1', 'ann:my-op.example.com:v2', 'ann:a.very-long-operator-prefix-name-to-hit-the-limits.example.com:v1', 'status:kopf', 'status:myop', 'multi:b.example.org']


def make_progress(cfg: str) -> Any:
    import kopf
    kind, _, rest = cfg.partition(':')
    if kind in ('ann', 'annv'):
        prefix, _, ver = rest.rpartition(':')
        return kopf.AnnotationsProgressStorage(prefix=prefix, v1=(ver == 'v1'), verbose=(kind == 'annv'))
    if kind == 'status':
        return kopf.StatusProgressStorage(name=rest)
    if kind == 'smart':
        return kopf.SmartProgressStorage(prefix=rest)
    if kind == 'multi':
        return kopf.MultiProgressStorage([kopf.AnnotationsProgressStorage(prefix=rest), kopf.StatusProgressStorage(name='multi')])
    raise ValueError(cfg)


def make_diffbase(cfg: str) -> Any:
    import kopf
    kind, _, rest = cfg.partition(':')
    if kind == 'ann':
        prefix, _, ver = rest.rpartition(':')
        return kopf.AnnotationsDiffBaseStorage(prefix=prefix, v1=(ver == 'v1'))
    if kind == 'status':
        return kopf.StatusDiffBaseStorage(name=rest)
    if kind == 'multi':
        return kopf.MultiDiffBaseStorage([kopf.AnnotationsDiffBaseStorage(prefix=rest), kopf.StatusDiffBaseStorage(name='multi')])
    raise ValueError(cfg)


def rnd_id(rng: random.Random, clean_ends: bool | None = None) -> str:
    n = rng.choice([1, 1, 2, 3, 5, 12, 30, 45, 46, 47, 48, 57, 58, 62, 63, 64, 65, 70, 120, 250, 300])
    s = ''.join(rng.choice(ALPHA) for _ in range(n))
    how = rng.random()
    if how < 0.15:
        s = rng.choice(['create_fn', 'update_fn', 'my_handler', 'Cls.method', 'outer.<locals>.inner']) + '/' + s
    elif how < 0.25:
        s = s + '/spec.field.' + rng.choice(['a', 'items'])
    s = s[:300]
    if clean_ends is None:
        clean_ends = rng.random() < 0.8
    if clean_ends:
        s = rng.choice(ALNUM) + s[1:]
        s = s[:-1] + rng.choice(ALNUM) if len(s) > 1 else s
    return s


def rnd_record(rng: random.Random) -> dict[str, Any]:
    return {'started': '2030-01-01T00:00:00.000001', 'stopped': rng.choice([None, '2030-01-01T00:00:01']), 'delayed': rng.choice([None, '2030-01-01T00:01:00']),
            'purpose': rng.choice([None, 'create', 'update']), 'retries': rng.choice([0, 1, 17]), 'success': rng.choice([True, False]),
            'failure': rng.choice([True, False]), 'message': rng.choice([None, 'plain', 'юникод ✓ "quoted" \\ \n newline', '']), 'subrefs': rng.choice([None, ['a/b', 'a/c']])}


def rnd_body(rng: random.Random) -> dict[str, Any]:
    body: dict[str, Any] = {'apiVersion': 'kopf.dev/v1', 'kind': 'KopfExample', 'metadata': {'name': 'n', 'uid': 'u', 'resourceVersion': '5'},
                            'spec': {'x': rng.randint(0, 3)}}
    if rng.random() < 0.7:
        body['metadata']['annotations'] = {'user/note': 'keep me', 'plain': 'too', 'other-op.example.net/h1': '{"retries":3}', 'other-op.example.net/kopf-managed': 'yes'}
    if rng.random() < 0.5:
        body['status'] = {'user': {'phase': 'x'}, 'otherop': {'progress': {'h': {'retries': 1}}}}
    if rng.random() < 0.25:
        body['kind'], body['apiVersion'] = 'ReplicaSet', 'apps/v1'
        body['metadata']['ownerReferences'] = [{'kind': 'Deployment', 'name': 'd', 'uid': 'x', 'apiVersion': 'apps/v1'}]
    return body


def merge(body: dict[str, Any], patch: Any) -> dict[str, Any]:
    from kv.fakekube import merge_patch
    out = merge_patch(body, json.loads(json.dumps(patch)))
    for k in ('labels', 'annotations'):
        if k in out.get('metadata', {}) and not out['metadata'][k]:
            del out['metadata'][k]
    return out


def strip_nulls(x: Any) -> Any:
    if isinstance(x, dict):
        return {k: strip_nulls(v) for k, v in x.items() if v is not None}
    return x


def own_annotation(key: str, cfgs_prefix: str) -> bool:
    return key.startswith(cfgs_prefix + '/')


def gen_cases(tier: str, seed: int):
    rng = random.Random(f'C16-{seed}')
    nb = 40 if tier == 'quick' else 1500
    cases = [{'name': 'hashseed', 'mode': 'hashseed', 'seed': rng.randrange(1 << 30)}]
    for i in range(nb):
        cases.append({'name': f'b{i}', 'mode': 'batch', 'seed': rng.randrange(1 << 30), 'n': 120})
    return cases


def run_case(case: dict[str, Any]) -> dict[str, Any]:
    return run_hashseed(case) if case['mode'] == 'hashseed' else run_batch(case)


KEYS_SNIPPET = r'''
import json, sys
sys.path.insert(0, sys.argv[1])
import kopf
ids = json.loads(sys.stdin.read())
out = {}
for cfg_prefix, v1 in (('kopf.zalando.org', True), ('my-op.example.com', False), ('my-op.example.com', True)):
    st = kopf.AnnotationsProgressStorage(prefix=cfg_prefix, v1=v1)
    for i in ids:
        out[f'{cfg_prefix}|{v1}|{i}'] = list(st.make_keys(i))
print(json.dumps(out))
'''


def run_hashseed(case: dict[str, Any]) -> dict[str, Any]:
    from kv import env
    rng = random.Random(case['seed'])
    ids = [rnd_id(rng) for _ in range(150)]
    outs = []
    for hs in ('0', '1', '4242', 'random'):
        e = dict(os.environ, PYTHONHASHSEED=hs)
        p = subprocess.run([env.PY, '-c', KEYS_SNIPPET, env.KOPF_ROOT], input=json.dumps(ids), capture_output=True, text=True, env=e, timeout=100)
        if p.returncode != 0:
            return {'violations': [], 'cov': {}, 'sig': None, 'nontrivial': False, 'error': p.stderr[-2000:]}
        outs.append(json.loads(p.stdout))
    viol = []
    for k in outs[0]:
        vals = {json.dumps(o[k]) for o in outs}
        if len(vals) > 1:
            viol.append({'mech': 'unstable-keys', 'msg': f'annotation names for {k!r} differ between interpreter runs (hash seeds): {sorted(vals)}', 'witness': None})
    return {'violations': viol, 'cov': {'hashseed_ids': len(ids), 'hashseed_runs': len(outs)}, 'sig': 'hashseed', 'nontrivial': True, 'sample': {'ids': ids[:3], 'keys': list(outs[0].items())[:3]}}


def run_batch(case: dict[str, Any]) -> dict[str, Any]:
    from kopf._cogs.structs import bodies, patches
    rng = random.Random(case['seed'])
    viol: list[dict[str, Any]] = []
    cov = {'roundtrips': 0, 'purges': 0, 'names_checked': 0, 'long_ids': 0, 'replicaset_cases': 0, 'diffbase_roundtrips': 0, 'distinctness_pairs': 0}
    sig = hashlib.sha1()
    sample = None

    def check_names(cfg: str, patch: Any, hid: str) -> None:
        for key in ((patch.get('metadata') or {}).get('annotations') or {}):
            cov['names_checked'] += 1
            prefix, _, name = key.rpartition('/')
            problems = []
            if len(name) > 63 or len(name) < 1:
                problems.append(f'name part has {len(name)} characters (1..63 allowed)')
            if len(prefix) > 253 or (prefix and not DNS_RE.match(prefix)):
                problems.append('prefix is not a DNS subdomain of <=253 characters')
            if name and not NAME_RE.match(name):
                bad_ends = (not name[0].isalnum()) or (not name[-1].isalnum())
                mid_ok = re.fullmatch(r'[-A-Za-z0-9_.]*', name) is not None
                long_prefix_v1 = cfg.endswith(':v1') and len(prefix) + 1 > 63 - 8
                if bad_ends and mid_ok and len(name) <= 63 and not (long_prefix_v1 and hid[:1].isalnum() and hid[-1:].isalnum()):
                    viol.append({'mech': 'name-not-alnum-terminated', 'msg': f'[{cfg}] id {hid!r} gives annotation name {key!r}, which does not start and end with an alphanumeric character',
                                 'witness': {'id': hid, 'key': key}})
                    continue
                problems.append('name part has characters outside [-A-Za-z0-9_.]')
            long_prefix_v1 = cfg.endswith(':v1') and len(prefix) + 1 > 63 - 8
            if problems and long_prefix_v1 and (len(name) > 63 or not name[:1].isalnum()):
                viol.append({'mech': 'v1-key-long-prefix', 'msg': f'[{cfg}] id {hid!r}: the legacy (v1) annotation name {key!r} is invalid: ' + '; '.join(problems) +
                             f' -- the v1 scheme fits prefix+name into 63 characters and the {len(prefix)}-character prefix leaves no room (negative slice)', 'witness': {'id': hid, 'key': key}})
                continue
            if problems:
                viol.append({'mech': 'invalid-annotation-name', 'msg': f'[{cfg}] id {hid!r} gives annotation name {key!r}: ' + '; '.join(problems), 'witness': {'id': hid, 'key': key}})

    for i in range(case['n']):
        cfg = rng.choice(PROGRESS_CONFIGS)
        st = make_progress(cfg)
        raw0 = rnd_body(rng)
        is_rs = raw0['kind'] == 'ReplicaSet'
        cov['replicaset_cases'] += is_rs
        # a family of ids: one main id, one sibling sharing a long prefix, one unrelated
        hid = rnd_id(rng)
        if rng.random() < 0.4:
            base = ''.join(rng.choice(ALNUM) for _ in range(rng.choice([63, 64, 70, 120])))
            hid = base + rng.choice(ALNUM) + 'x1'
            sib = base + rng.choice(ALNUM) + 'y2'
        else:
            sib = rnd_id(rng)
        if sib == hid:
            sib = hid + 'z'
        cov['long_ids'] += len(hid) > 63
        rec, rec_sib = rnd_record(rng), rnd_record(rng)
        sig.update(json.dumps([cfg, hid, rec, is_rs], sort_keys=True).encode())
        # sibling stored first (it is "another handler's record")
        b = copy.deepcopy(raw0)
        p = patches.Patch()
        st.store(key=sib, record=rec_sib, body=bodies.Body(b), patch=p)
        check_names(cfg, p, sib)
        b1 = merge(b, p)
        # store
        p = patches.Patch()
        st.store(key=hid, record=rec, body=bodies.Body(b1), patch=p)
        check_names(cfg, p, hid)
        b2 = merge(b1, p)
        got = st.fetch(key=hid, body=bodies.Body(b2))
        cov['roundtrips'] += 1
        if strip_nulls(dict(got) if got is not None else None) != strip_nulls(rec):
            viol.append({'mech': 'roundtrip-mismatch', 'msg': f'[{cfg}] record of {hid!r} read back differently: {got!r} != {rec!r}', 'witness': {'id': hid, 'body': b2}})
        got_sib = st.fetch(key=sib, body=bodies.Body(b2))
        cov['distinctness_pairs'] += 1
        if strip_nulls(dict(got_sib) if got_sib is not None else None) != strip_nulls(rec_sib):
            viol.append({'mech': 'records-collide', 'msg': f'[{cfg}] storing {hid!r} disturbed the record of {sib!r} (same storage keys?): {got_sib!r} != {rec_sib!r}',
                         'witness': {'ids': [hid, sib], 'keys': sorted(((b2.get('metadata') or {}).get('annotations') or {}).keys())}})
        # touch + purge
        p = patches.Patch()
        st.purge(key=hid, body=bodies.Body(b2), patch=p)
        b3 = merge(b2, p)
        cov['purges'] += 1
        left = st.fetch(key=hid, body=bodies.Body(b3))
        if left is not None:
            viol.append({'mech': 'purge-incomplete', 'msg': f'[{cfg}] after purging {hid!r} it is still read back as {left!r}', 'witness': {'id': hid, 'body': b3}})
        # complete purge: everything that appeared with the store of hid is gone again (the marker may stay)
        def strip_marker(x: dict[str, Any]) -> dict[str, Any]:
            x = copy.deepcopy(x)
            ann = (x.get('metadata') or {}).get('annotations') or {}
            for k in list(ann):
                if k.endswith('/kopf-managed') and k not in ((raw0.get('metadata') or {}).get('annotations') or {}):
                    del ann[k]
            if 'annotations' in x.get('metadata', {}) and not ann:
                del x['metadata']['annotations']
            return x
        if strip_marker(b3) != strip_marker(b1) and _drop_empty(strip_marker(b3)) != _drop_empty(strip_marker(b1)):
            viol.append({'mech': 'purge-incomplete', 'msg': f'[{cfg}] store+purge of {hid!r} leaves traces on the object', 'witness': {'before': b1, 'after': b3}})
        sib_after = st.fetch(key=sib, body=bodies.Body(b3))
        if strip_nulls(dict(sib_after) if sib_after is not None else None) != strip_nulls(rec_sib):
            viol.append({'mech': 'records-collide', 'msg': f'[{cfg}] purging {hid!r} disturbed the record of {sib!r}', 'witness': {'ids': [hid, sib]}})
        # isolation: user data, other operators' data untouched by all steps
        for stage, bb in (('store', b2), ('purge', b3)):
            for path in (('metadata', 'annotations', 'user/note'), ('metadata', 'annotations', 'plain'), ('metadata', 'annotations', 'other-op.example.net/h1'),
                         ('metadata', 'annotations', 'other-op.example.net/kopf-managed'), ('status', 'user'), ('status', 'otherop'), ('spec',)):
                if _get(bb, path) != _get(raw0, path):
                    viol.append({'mech': 'foreign-data-disturbed', 'msg': f'[{cfg}] {stage} of {hid!r} changed {".".join(path)}', 'witness': {'before': raw0, 'after': bb}})
        if sample is None:
            sample = {'config': cfg, 'id': hid, 'record': rec, 'annotations_after_store': sorted(((b2.get('metadata') or {}).get('annotations') or {}).keys())}
        # diff-base storages
        if rng.random() < 0.35:
            dcfg = rng.choice(DIFFBASE_CONFIGS)
            ds = make_diffbase(dcfg)
            # "whatever ... last-handled state": incl. the one of an object with nothing essential in it (an empty mapping: falsy), and falsy leaves
            ess = rng.choice([
                {'spec': {'x': rng.randint(0, 5), 'ключ': ['значение', None, {'a': 1.5}]}, 'metadata': {'labels': {'l': 'v'}}},
                {'spec': {'x': rng.randint(0, 5), 'ключ': ['значение', None, {'a': 1.5}]}, 'metadata': {'labels': {'l': 'v'}}},
                {}, {'spec': {}}, {'metadata': {'labels': {}}}, {'spec': {'x': 0, 'y': False, 'z': '', 'e': [], 'n': None}}, {'data': {'k': ''}},
            ])
            if not ess:
                cov['empty_essences'] = cov.get('empty_essences', 0) + 1
            p = patches.Patch()
            ds.store(body=bodies.Body(raw0), patch=p, essence=ess)
            check_names(dcfg, p, 'last-handled-configuration')
            bd = merge(raw0, p)
            back = ds.fetch(body=bodies.Body(bd))
            cov['diffbase_roundtrips'] += 1
            if back != ess:
                viol.append({'mech': 'roundtrip-mismatch', 'msg': f'[{dcfg}] last-handled state read back differently: {back!r} != {ess!r}', 'witness': {'body': bd}})
            for path in (('metadata', 'annotations', 'user/note'), ('status', 'user'), ('spec',)):
                if _get(bd, path) != _get(raw0, path):
                    viol.append({'mech': 'foreign-data-disturbed', 'msg': f'[{dcfg}] storing the last-handled state changed {".".join(path)}', 'witness': None})
    return {'violations': viol, 'cov': cov, 'sig': sig.hexdigest()[:16], 'nontrivial': True, 'sample': sample}


def _get(d: Any, path: tuple[str, ...]) -> Any:
    for k in path:
        if not isinstance(d, dict) or k not in d:
            return None
        d = d[k]
    return d


def _drop_empty(x: Any) -> Any:
    if isinstance(x, dict):
        out = {k: _drop_empty(v) for k, v in x.items()}
        return {k: v for k, v in out.items() if v not in ({}, None)}
    return x

"""
C09 -- daemon/timer life cycle: one instance at a time, started on match, stopped in stages, never restarted after its own exit.
"""
from __future__ import annotations

import hashlib
import copy
import random
from typing import Any

ID = 'C09'
LEVEL = 'exploration'
STALL = True
TIMEOUT_PER_CASE = 180.0
TECHNIQUE = ('runtime monitoring: the whole operator runs against the fake API server on a virtual clock; every daemon/timer invocation is recorded with the identity of '
             'its stop flag (= the spawned instance), the instants the flag and the cancellations were seen, and the stop reasons; an offline checker compares the '
             'instance intervals with what the operator was given (listings, watch events, pause toggles, stop request); a stall sanitizer (sys.monitoring) watches the loop'
             '; handler threads of synchronous daemons are gated so that virtual time moves only at thread quiescence')
LEVEL_TEXT = ('Held on the explored histories: 1-3 daemons/timers per object (obeying, lingering, flag-ignoring, cancellation-swallowing, self-exiting daemons; interval, idle, '
              'interval+idle and one-shot timers), label/field filter toggles at gaps from 0 to 8 s, graceful deletions, deletions before the finalizer exists and after its '
              'forced removal, pauses/resumes through a foreign peering record, operator exit; cancellation_backoff/timeout in {None, 1, 2.5/3}.'
              ' A fifth of the daemons/timers are synchronous functions run by kopf in real threads (thread-side stop flag) under a thread-aware virtual clock.')
LEVEL_NOTE = ('"Started when matching" and "asked to stop" are judged only at events that stay the latest one for the object for a batch window (events collapsed by batching are '
              'not processed individually by design). Timers with idle= are checked for stopping only (their start is C10).')
RULE = ('random handler sets x random histories; non-trivial = at least one instance was stopped by a cause other than operator exit; distinct = hash of the per-instance '
        '(handler, start, flag, cancel, end, reasons) tuples')
ASSUMPTIONS = ['the fake API server delivery instants are the instants the operator "sees" a change', 'change handlers are instantaneous (no worker is busy for long)',
               'daemon personas are finite (a daemon swallowing every cancellation forever blocks the exit by design)']
SANITIZE_LOOP_ERRORS = True      # an exception inside an asyncio callback during the simulation is a violation here (runner.run_case_sanitized)
GATES = {'instances': 800, 'stopped_by_mismatch': 30, 'stopped_by_deletion': 100, 'stopped_by_pause': 40, 'stopped_by_exit': 80, 'cancelled': 100, 'abandoned': 10,
         'start_checks': 400, 'stop_checks': 800, 'sync_instances_stopped': 20, 'self_exits': 40, 'respawns': 30, 'vanished_objects': 100, 'timer_instances': 200}

BATCH = 0.0          # this kopf version has no batch window any more (the setting is deprecated): every event is processed
W = BATCH + 0.03      # an event is processed within this (a few request latencies of 1 ms)
W2 = 0.6              # slack of a staged step: re-check cycle = sleep + touch-patch + batch window + request latencies


SYNC_SHARE = 0.2     # share of daemons/timers that are synchronous functions (threads)


def rnd_desc(rng: random.Random, i: int) -> dict[str, Any]:
    handlers: list[dict[str, Any]] = []
    rng_sync = random.Random(rng.random())       # its own stream of choices
    for k in range(rng.choice([1, 1, 2, 3])):
        flt = rng.choice([None, 'label', 'label', 'field'])
        opts: dict[str, Any] = {}
        if flt == 'label':
            opts['labels'] = {'l': 'a'}
        elif flt == 'field':
            opts['field'] = 'spec.on'
            opts['value'] = True
        if rng.random() < 0.65:
            ptype = rng.choice(['obedient', 'obedient', 'linger', 'stubborn', 'swallow', 'selfexit'])
            backoff = rng.choice([None, 1.0, 3.0])
            timeout = rng.choice([None, 1.0, 2.5])
            if ptype in ('stubborn', 'swallow') and timeout is None:
                timeout = rng.choice([1.0, 2.5])
            persona: dict[str, Any] = {'type': ptype}
            if ptype == 'linger':
                persona['linger'] = rng.choice([0.5, 2.0, 5.0])
            if ptype == 'swallow':
                persona.update(n=1, linger=rng.choice([0.5, 4.0]))
            if ptype == 'selfexit':
                persona['after'] = rng.choice([0.0, 3.0])
            if backoff is not None:
                opts['cancellation_backoff'] = backoff
            if timeout is not None:
                opts['cancellation_timeout'] = timeout
            handlers.append({'kind': 'daemon', 'id': f's{k}', 'persona': persona, 'opts': opts})
        else:
            topts = rng.choice([{'interval': 2.0}, {'interval': 2.0}, {'idle': 3.0}, {'interval': 2.0, 'idle': 3.0}, {}])
            handlers.append({'kind': 'timer', 'id': f's{k}', 'opts': {**opts, **topts}})
        if SYNC_SHARE and rng_sync.random() < SYNC_SHARE:
            # a synchronous function: kopf runs it in its thread pool and hands it the thread-side stop flag (kv.vthreads keeps the clock virtual).
            # A thread cannot be cancelled: the flag-ignoring personas become "lingers on after the flag" (abandoned, never seen cancelled).
            h = handlers[-1]
            h['sync'] = True
            if h['kind'] == 'daemon' and h['persona']['type'] in ('stubborn', 'swallow'):
                h['persona'] = {'type': 'linger', 'linger': rng_sync.choice([4.0, 8.0])}
    if rng.random() < 0.3:
        handlers.append({'kind': 'delete', 'id': 'dl'})
    if rng.random() < 0.5:
        handlers.append({'kind': 'create', 'id': 'c1'})
    peering = rng.random() < 0.4
    names = ['o0', 'o1', 'o2', 'o3'][:rng.choice([1, 1, 2, 2, 4] if peering else [1, 1, 2])]

    def body() -> dict[str, Any]:
        return {'spec': {'on': rng.random() < 0.7, 'x': 0}, 'metadata': {'labels': {'l': rng.choice(['a', 'a', 'b'])}}}
    tl: list[list[Any]] = []
    for n in names:
        tl.append([0.0 if rng.random() < 0.5 else 1.5, 'create', n, body()])
    tl.append([0.5, 'start', 'op1'])
    t = 3.0
    paused = False
    for k in range(rng.randint(3, 12)):
        t = round(t + rng.choice([0.0, 0.001, 0.05, 0.3, 1.0, 4.0, 8.0, 8.0]), 6)
        n = rng.choice(names)
        r = rng.random()
        if r < 0.22:
            tl.append([t, 'edit', n, {'metadata': {'labels': {'l': rng.choice(['a', 'b'])}}}])
        elif r < 0.36:
            tl.append([t, 'edit', n, {'spec': {'on': rng.random() < 0.5}}])
        elif r < 0.46:
            tl.append([t, 'edit', n, {'spec': {'x': k + 1}}])
        elif r < 0.58:
            tl.append([t, 'delete', n])
        elif r < 0.70:
            tl.append([t, 'create', n, body()])
        elif r < 0.78:
            nn = f'q{k}'
            tl.append([t, 'create', nn, body()])
            tl.append([round(t + rng.choice([0.0, 0.001, 0.05, 0.12]), 6), 'delete', nn])
        elif r < 0.86:
            tl.append([t, 'force_remove', n])
            tl.append([round(t + rng.choice([0.0, 0.0, 0.001]), 6), 'delete', n])
        elif peering:
            if not paused:
                # events in flight at the very instant of pausing (#1266): edits of the objects right before/after the peer's record
                flight = rng.random() < 0.5
                if flight and rng.random() < 0.5:
                    for n2 in names:
                        tl.append([t, 'edit', n2, {'spec': {'x': 100 + k}}])
                tl.append([t, 'peer', 'boss', 100, rng.choice([5, 60])])
                if flight:
                    for n2 in names:
                        tl.append([round(t + rng.choice([0.0, 0.0, 1e-6, 0.001]), 6), 'edit', n2, {'spec': {'x': 200 + k}}])
            else:
                tl.append([t, 'unpeer', 'boss'])
            paused = not paused
    tl.sort(key=lambda x: x[0])      # stable: same-instant operations keep their order
    desc: dict[str, Any] = {'seed': rng.randrange(1 << 30), 'handlers': handlers, 'timeline': tl, 'quiet': 12.0, 'horizon': 400.0, 'latency': 0.001,
                            'settings': {'queueing__idle_timeout': 1.0, 'persistence__consistency_timeout': 0.5, 'background__cancellation_polling': 1.0},
                            'end': 'stop', 'exit_wait': 120.0, 'post_yields': rng.choice([0, 0, 0, 1, 2, 3, 5, 8])}
    if peering:
        desc['peering'] = {'name': 'default'}
    return desc


def directed() -> list[dict[str, Any]]:
    """Race windows that random timelines hit only now and then; here by construction, for every phase shift of the fake server."""
    out: list[dict[str, Any]] = []
    base = {'quiet': 12.0, 'horizon': 400.0, 'latency': 0.001, 'end': 'stop', 'exit_wait': 120.0,
            'settings': {'queueing__idle_timeout': 1.0, 'persistence__consistency_timeout': 0.5, 'background__cancellation_polling': 1.0}}
    # A one-shot timer/self-exiting daemon starts matching in one event while another daemon stops matching in the very next one:
    # the first is spawned, exits on its own while the second is being signalled, and must not be spawned again.
    oneshots = [{'kind': 'timer', 'id': 's0', 'opts': {'labels': {'l': 'a'}}},
                {'kind': 'daemon', 'id': 's0', 'persona': {'type': 'selfexit', 'after': 0.0}, 'opts': {'labels': {'l': 'a'}}}]
    other = {'kind': 'daemon', 'id': 's1', 'persona': {'type': 'linger', 'linger': 2.0}, 'opts': {'field': 'spec.on', 'value': True, 'cancellation_backoff': 1.0}}
    for k, one in enumerate(oneshots):
        for py in (0, 1, 2, 3, 5, 8):
            for gap in (0.0, 0.001):
                for peering in (False, True):
                    tl = [[0.0, 'create', 'o0', {'spec': {'on': True, 'x': 0}, 'metadata': {'labels': {'l': 'b'}}}], [0.5, 'start', 'op1'],
                          [3.3, 'edit', 'o0', {'metadata': {'labels': {'l': 'a'}}}], [round(3.3 + gap, 6), 'edit', 'o0', {'spec': {'on': False}}],
                          [9.0, 'edit', 'o0', {'spec': {'x': 1}}], [14.0, 'delete', 'o0']]
                    d = {**copy.deepcopy(base), 'seed': 1, 'handlers': [copy.deepcopy(one), copy.deepcopy(other)], 'timeline': tl, 'post_yields': py}
                    if peering:
                        d['peering'] = {'name': 'default'}
                    out.append({'name': f'dir-oneshot{k}-py{py}-g{gap}-p{int(peering)}', 'desc': d})
    return out


def gen_cases(tier: str, seed: int):
    rng = random.Random(f'C09-{seed}')
    n = 600 if tier == 'quick' else 15000
    return directed() + [{'name': f'rnd{i}', 'desc': rnd_desc(rng, i)} for i in range(n)]


def _matches(spec: dict[str, Any], body: dict[str, Any]) -> bool:
    opts = spec.get('opts') or {}
    labels = (body.get('metadata') or {}).get('labels') or {}
    for k, v in (opts.get('labels') or {}).items():
        if labels.get(k) != v:
            return False
    if 'field' in opts:
        cur: Any = body
        for part in opts['field'].split('.'):
            cur = cur.get(part) if isinstance(cur, dict) else None
        if cur != opts.get('value'):
            return False
    return True


def run_case(case: dict[str, Any]) -> dict[str, Any]:
    from kv.monitors import Stall
    from kv.oracles import Index, operator_feed, trace_lines
    from kv.world import run_world

    Stall.take_hits()
    desc = case['desc']
    w = run_world(desc)
    ix = Index(w)
    viol: list[dict[str, Any]] = []
    cov = {k: 0 for k in GATES}
    for s in Stall.take_hits():
        viol.append({'mech': 'stall', 'msg': 'event loop stalled (one callback ran >200k python calls without yielding)', 'witness': s})
    inc = 'op1'
    incobj = w.incs[inc]
    specs = {h['id']: h for h in desc['handlers'] if h['kind'] in ('daemon', 'timer')}
    feed = operator_feed(w, inc)
    by_uid: dict[str, list[dict[str, Any]]] = {}
    for e in feed:
        by_uid.setdefault(e['uid'], []).append(e)
    toggles = [(e['t'], e['to']) for e in w.events if e['k'] == 'note' and e.get('what') == 'toggle' and e.get('inc') == inc and '@' in str(e.get('name'))
               and not str(e.get('name')).startswith('kopfexamples')]
    t_stop = incobj.t_stop_requested if incobj.t_stop_requested is not None else float('inf')
    t_end = incobj.t_end if incobj.t_end is not None else float('inf')

    def paused_at(t: float) -> bool:
        st = bool(desc.get('peering'))      # mandatory peering: paused until the first peering event is processed
        for tt, to in toggles:
            if tt <= t:
                st = to
        return st

    def pause_changes(t1: float, t2: float) -> bool:
        return any(t1 <= tt <= t2 for tt, _ in toggles)

    # ---- operator health ---------------------------------------------------------------------
    if incobj.exc is not None:
        viol.append({'mech': 'operator-crashed', 'msg': f'kopf.operator() raised {incobj.exc!r}', 'witness': None})
    elif incobj.t_end is not None and incobj.t_stop_requested is None:
        viol.append({'mech': 'operator-exited-unasked', 'msg': f'kopf.operator() returned at t={incobj.t_end} without a stop request', 'witness': None})
    if w.exited_in_time.get(inc) is False:
        viol.append({'mech': 'operator-exit-hangs', 'msg': 'the operator did not exit within 120 virtual seconds after the stop request', 'witness': None})
    for le in w.sim.loop_errors:
        if 'never retrieved' in str(le.get('message')) or 'exception' in str(le.get('message')).lower():
            viol.append({'mech': 'background-task-failed', 'msg': f"a background task failed: {le.get('message')} {le.get('exception')}", 'witness': le})
            break

    # ---- instances --------------------------------------------------------------------------------
    insts: dict[tuple[str, str, int], dict[str, Any]] = {}
    for c in ix.calls:
        if c['inc'] != inc or c['kind'] not in ('daemon', 'timer') or c.get('inst') is None:
            continue
        key = (c['uid'], c['h'], c['inst'])
        r = ix.rets.get(c['seq'])
        it = insts.setdefault(key, {'uid': c['uid'], 'h': c['h'], 'inst': c['inst'], 'kind': c['kind'], 'calls': [], 't0': c['t'], 't1': None, 'open': False,
                                    'flag': None, 'cancels': [], 'reasons': None, 'outcome': None})
        it['calls'].append((c['t'], r['t'] if r else None))
        if r is None:
            it['open'] = True
        else:
            it['t1'] = r['t'] if it['t1'] is None else max(it['t1'], r['t'])
            if r.get('flag_seen_at') is not None:
                it['flag'] = r['flag_seen_at']
            it['cancels'] += list(r.get('cancelled_at') or [])
            it['reasons'] = r.get('reasons')
            it['outcome'] = r.get('outcome')
    per: dict[tuple[str, str], list[dict[str, Any]]] = {}
    for it in insts.values():
        per.setdefault((it['uid'], it['h']), []).append(it)
    for lst in per.values():
        lst.sort(key=lambda it: it['t0'])
    cov['instances'] = len(insts)
    cov['timer_instances'] = sum(1 for it in insts.values() if it['kind'] == 'timer')

    def end_of(it: dict[str, Any]) -> float:
        return float('inf') if it['open'] else it['t1']

    def live_at(uid: str, hid: str, t: float) -> dict[str, Any] | None:
        """For daemons: the instance whose user function is running at t."""
        for it in per.get((uid, hid), []):
            if it['kind'] == 'daemon' and any(a <= t and (b is None or b > t) for a, b in it['calls']):
                return it
        return None

    # (a) at most one instance at a time; a stopping instance is not respawned before it has ended
    for (uid, hid), lst in per.items():
        for a, b in zip(lst, lst[1:]):
            cov['respawns'] += 1
            if b['t0'] < end_of(a) - 1e-9:
                viol.append({'mech': 'two-instances', 'msg': f"{hid} on {uid}: instance #{b['inst']} started at t={b['t0']} while instance #{a['inst']} (started t={a['t0']}) "
                                                             f"was still running (ended {'never' if a['open'] else a['t1']})", 'witness': {'a': a, 'b': b}})
                break
        # overlapping invocations even within what claims to be one instance
        allc = sorted((c for it in lst for c in it['calls']), key=lambda x: x[0])
        for (a0, a1), (b0, b1) in zip(allc, allc[1:]):
            if a1 is None or b0 < a1 - 1e-9:
                if not any(v['mech'] == 'two-instances' for v in viol):
                    viol.append({'mech': 'two-instances', 'msg': f"{hid} on {uid}: invocations overlap: [{a0}, {a1}] and [{b0}, {b1}]", 'witness': None})
                break

    # (d) an instance that exited on its own is never started again in this operator process
    for (uid, hid), lst in per.items():
        for k, it in enumerate(lst):
            own = it['kind'] == 'daemon' and not it['open'] and it['outcome'] == 'ok' and it['reasons'] == 'None' and it['flag'] is None
            if own:
                cov['self_exits'] += 1
                if lst[k + 1:]:
                    nxt = lst[k + 1]
                    viol.append({'mech': 'restarted-after-own-exit', 'msg': f"{hid} on {uid}: returned on its own at t={it['t1']}, yet a new instance started at t={nxt['t0']}",
                                 'witness': {'first': it, 'next': nxt}})
                    break
            if it['kind'] == 'timer' and not {'interval', 'idle'} & set(specs[hid].get('opts') or {}):
                # (a run during which the operator paused -- a synchronous function runs in a thread while the loop goes on, the pause may begin under it -- was
                # ASKED to stop before it returned: it did not exit on its own, and is started again on resume like any stopped instance)
                stopped_under_it = any(to and a - 1e-9 <= tt <= (b if b is not None else float('inf')) + 1e-9 for tt, to in toggles for a, b in it['calls'])
                if (len(it['calls']) > 1 or lst[k + 1:]) and not stopped_under_it:
                    viol.append({'mech': 'one-shot-timer-repeated', 'msg': f"{hid} on {uid}: a timer without interval/idle ran more than once ({len(it['calls'])} calls, {len(lst)} instances)",
                                 'witness': None})
                    break

    def staged_mech(it: dict[str, Any], default: str, f: float, until: float) -> str:
        """Why did the staged stop not proceed? The two known mechanisms leave their mark in what the operator was given meanwhile."""
        evs = [e for e in by_uid.get(it['uid'], []) if f - 1e-9 <= e['t'] <= until + 1e-9]
        if any(e['type'] == 'DELETED' for e in evs):
            return 'gone-object-instance-not-stopped'          # no more events, no more re-check cycles
        if 'FILTERS_MISMATCH' in str(it['reasons']) and any(_matches(specs[it['h']], e['body']) and e['t'] > f + 1e-9 for e in evs):
            return 'rematch-while-previous-instance-stopping'  # nothing mismatches any more: the stopping is not continued
        return default

    # ---- staged stop of daemons, relative to the instant the flag was raised ------------------------------------------
    for it in insts.values():
        if it['kind'] != 'daemon' or it['open']:
            continue
        spec = specs[it['h']]
        opts = spec.get('opts') or {}
        backoff, timeout = opts.get('cancellation_backoff'), opts.get('cancellation_timeout')
        reasons = str(it['reasons'])
        for name, key in (('FILTERS_MISMATCH', 'stopped_by_mismatch'), ('RESOURCE_DELETED', 'stopped_by_deletion'), ('OPERATOR_PAUSING', 'stopped_by_pause'), ('OPERATOR_EXITING', 'stopped_by_exit')):
            if name in reasons:
                cov[key] += 1
        f = it['flag']
        if it['cancels']:
            cov['cancelled'] += 1
        if 'DAEMON_ABANDONED' in reasons:
            cov['abandoned'] += 1
        exiting = 'OPERATOR_EXITING' in reasons or it['t1'] >= t_stop - 1e-9
        if f is None and it['cancels'] and reasons not in ('None', ''):
            f = it['cancels'][0]      # flag and cancellation in one instant (no backoff): the persona had no chance to notice the flag first
        if it['cancels'] and f is None and not exiting:
            viol.append({'mech': 'cancelled-without-flag', 'msg': f"{it['h']} on {it['uid']}: cancelled at t={it['cancels'][0]} although its stop flag was never raised (reasons {reasons})", 'witness': it})
            continue
        if f is None:
            continue
        if it['cancels']:
            c0 = it['cancels'][0]
            if timeout is None and not exiting:
                viol.append({'mech': 'cancelled-without-timeout', 'msg': f"{it['h']} on {it['uid']}: cancelled at t={c0} although no cancellation_timeout is configured (flag at {f}, reasons {reasons})", 'witness': it})
            if c0 < f + (backoff or 0) - 1e-6 and not (it['t1'] >= t_end - 1e-9):
                viol.append({'mech': 'cancelled-before-backoff', 'msg': f"{it['h']} on {it['uid']}: stop flag at t={f}, cancelled at t={c0}, i.e. before the cancellation_backoff={backoff} has passed", 'witness': it})
        # a pause or the exit starts its own stopping procedure (in memory, from its own instant) on top of a running one: the later deadline holds
        # (so does the disappearance of the object: the in-memory stopping begins when the DELETED event is processed)
        restarts = [tt for tt, to in toggles if to and f <= tt <= it['t1']] + ([t_stop] if f <= t_stop <= it['t1'] else [])
        restarts += [e['t'] + BATCH for e in by_uid.get(it['uid'], []) if e['type'] == 'DELETED' and f <= e['t'] <= it['t1']]
        f_late = max([f] + restarts)
        if 'OPERATOR_PAUSING' in reasons:
            f_late = max(f_late, f + 1.0)     # a daemon spawned at the instant of pausing is met by the killer's next once-per-second sweep, which starts the stages anew
        if spec.get('sync'):
            cov['sync_instances_stopped'] += 1
        if timeout is not None and it['t1'] > f_late + (backoff or 0) + W2 and not it['cancels'] and it['t1'] < t_end - 1e-9 and not spec.get('sync'):
            viol.append({'mech': staged_mech(it, 'not-cancelled-after-backoff', f, it['t1']), 'msg': f"{it['h']} on {it['uid']}: stop flag at t={f}, backoff={backoff}, timeout={timeout}: still running at t={it['t1']} and never cancelled", 'witness': it})
        if it['cancels'] and timeout is not None and it['cancels'][0] > f_late + (backoff or 0) + W2 and 'OPERATOR_EXITING' not in reasons:
            viol.append({'mech': staged_mech(it, 'cancelled-too-late', f, it['cancels'][0]), 'msg': f"{it['h']} on {it['uid']}: stop flag at t={f}, backoff={backoff}: cancelled only at t={it['cancels'][0]}", 'witness': it})
        if 'DAEMON_ABANDONED' in reasons and timeout is not None and it['t1'] < f + (backoff or 0) + timeout - 1e-6:
            viol.append({'mech': 'abandoned-too-early', 'msg': f"{it['h']} on {it['uid']}: flag at t={f}, abandoned although it ended at t={it['t1']} < flag+backoff+timeout={f + (backoff or 0) + timeout}", 'witness': it})

    # ---- (b)/(c): started when matching, asked to stop when not -- at events that stay the latest for a batch window -----------------------
    for uid, evs in by_uid.items():
        seen_mark = False
        for k, e in enumerate(evs):
            t = e['t']
            meta = e['body'].get('metadata') or {}
            deleting = meta.get('deletionTimestamp') is not None
            seen_mark = seen_mark or deleting
            gone = e['type'] == 'DELETED'
            nxt = evs[k + 1]['t'] if k + 1 < len(evs) else float('inf')
            if nxt <= t + W + 0.02 or t + W + 0.02 >= t_stop or pause_changes(t - 0.3, t + W + 0.02):
                continue          # collapsed by batching, or too close to a pause toggle / the exit to judge
            paused = paused_at(t)
            for hid, spec in specs.items():
                want = _matches(spec, e['body']) and not deleting and not gone and not paused
                lst = per.get((uid, hid), [])
                if want:
                    if spec['kind'] == 'timer' and 'idle' in (spec.get('opts') or {}):
                        continue
                    if spec['kind'] == 'timer' and 'interval' not in (spec.get('opts') or {}) and lst:
                        continue      # a one-shot timer that has run
                    if any(it['kind'] == 'daemon' and not it['open'] and it['outcome'] == 'ok' and it['reasons'] == 'None' and it['flag'] is None for it in lst):
                        continue      # exited on its own: never again
                    cov['start_checks'] += 1
                    T = t + W
                    if spec['kind'] == 'daemon':
                        cur = live_at(uid, hid, T)
                        ok = (cur is not None and (cur['flag'] is None or cur['flag'] > T)) or any(abs(it['t0'] - T) < W and it['t0'] >= t - 1e-9 for it in lst)
                    else:
                        iv = (spec.get('opts') or {}).get('interval', 0.0)
                        ok = any(t - iv - 1e-6 <= a <= T + 1e-6 for it in lst for a, _ in it['calls'])
                    if not ok:
                        stopping = [it for it in lst if it['t0'] < t and end_of(it) > t - 1e-9 and (it['flag'] is not None and it['flag'] <= t + W or it['kind'] == 'timer')]
                        later = [it for it in lst if it['t0'] > T]
                        if stopping and not any('OPERATOR_PAUSING' in str(x['reasons']) for x in stopping):
                            # the stopping goes on; the new instance is due once the old one has ended and the next re-check cycle has come
                            so = specs[hid].get('opts') or {}
                            t_gone = max(end_of(x) for x in stopping)
                            due = t_gone + max(1.0, so.get('cancellation_backoff') or 0.0, so.get('cancellation_timeout') or 0.0) + W2
                            disturbed = any(t < e2['t'] <= due for e2 in evs) or pause_changes(t, due) or due >= t_stop
                            if disturbed or any(t_gone - 1e-9 <= it['t0'] <= due for it in lst):
                                continue
                        if stopping:
                            # two roads lead here: the filters matched again while the mismatching instance was stopping, or the operator
                            # resumed (re-listing) while the instance stopped for the pause was still exiting (admitted in daemon_killer's docstring)
                            paused_one = 'OPERATOR_PAUSING' in str(stopping[0]['reasons'])
                            abandoned_one = 'DAEMON_ABANDONED' in str(stopping[0]['reasons']) and not paused_one
                            viol.append({'mech': 'resume-while-paused-instance-still-exiting' if paused_one else
                                                 'rematch-while-abandoned-instance-still-running' if abandoned_one else 'rematch-while-previous-instance-stopping',
                                         'msg': f"{hid} on {uid}: the object (re)matches at t={t} while the previous instance is still exiting (ends {end_of(stopping[0])}); "
                                                f"no instance runs afterwards until {'t=%s' % later[0]['t0'] if later else 'the end'}", 'witness': {'event_rv': e['rv']}})
                        else:
                            viol.append({'mech': 'not-started-on-match', 'msg': f"{hid} on {uid}: the object seen at t={t} (rv={e['rv']}, {e['type'] or 'listed'}) matches, is not being deleted, "
                                                                                 f"the operator is not paused, yet no instance runs at t={T}", 'witness': {'instances': lst}})
                        break
                else:
                    cov['stop_checks'] += 1
                    if gone and not seen_mark:
                        cov['vanished_objects'] += 1
                    T = t + W
                    bad = None
                    if spec['kind'] == 'daemon':
                        it = live_at(uid, hid, T)
                        if it is not None and it['t0'] <= t and (it['flag'] is None or it['flag'] > T + 1e-9):
                            bad = f"instance #{it['inst']} (started t={it['t0']}) has no stop flag by t={T} (flag {'never' if it['flag'] is None else 'at t=%s' % it['flag']}; ended {'never' if it['open'] else it['t1']})"
                    else:
                        late = [a for it in lst if it['t0'] <= t for a, _ in it['calls'] if a > T + 1e-9 and a < nxt]
                        if late:
                            bad = f"the timer instance spawned before keeps firing (t={late[:3]})"
                    if bad:
                        why = 'paused' if paused and not (deleting or gone) and _matches(spec, e['body']) else 'gone' if gone else 'marked for deletion' if deleting else 'not matching'
                        mech = 'gone-object-instance-not-stopped' if gone and not seen_mark else 'not-asked-to-stop'
                        viol.append({'mech': mech, 'msg': f"{hid} on {uid}: the object seen at t={t} (rv={e['rv']}, {e['type'] or 'listed'}) is {why}, yet {bad}", 'witness': None})
                        break
    def vanished(uid: str, before: float) -> bool:
        """The object disappeared (DELETED seen before ``before``) without the operator ever seeing a deletion mark on it."""
        evs = [e for e in by_uid.get(uid, []) if e['t'] <= before]
        return bool(evs) and evs[-1]['type'] == 'DELETED' and not any((e['body'].get('metadata') or {}).get('deletionTimestamp') for e in evs)

    # pauses and the exit: every live daemon instance gets the flag at once, timers stop firing
    for tp, to in toggles:
        if not to or tp >= t_stop:
            continue
        t_resume = next((tt for tt, x in toggles if tt >= tp and not x), float('inf'))
        if t_resume - tp < 0.1:
            continue      # a pause of (nearly) zero length: nothing is bound to notice it
        for it in insts.values():
            if it['kind'] == 'daemon' and it['t0'] <= tp and end_of(it) > tp + 0.05:
                cov['stop_checks'] += 1
                if it['flag'] is None or it['flag'] > tp + 0.05:
                    viol.append({'mech': 'gone-object-instance-not-stopped' if vanished(it['uid'], tp) else 'not-asked-to-stop', 'msg': f"{it['h']} on {it['uid']}: the operator paused at t={tp}; the running instance has no stop flag by t={tp + 0.05} (flag: {it['flag']})", 'witness': it})
                    break
            if it['kind'] == 'timer' and it['t0'] <= tp:
                late = [a for a, _ in it['calls'] if tp + 0.05 < a < t_resume]
                if late:
                    viol.append({'mech': 'gone-object-instance-not-stopped' if vanished(it['uid'], tp) else 'not-asked-to-stop', 'msg': f"timer {it['h']} on {it['uid']}: the operator paused at t={tp}, yet the instance fired at t={late[:3]}", 'witness': None})
                    break
    if t_stop < float('inf'):
        for it in insts.values():
            if it['kind'] == 'daemon' and it['t0'] <= t_stop and end_of(it) > t_stop + 0.05:
                cov['stop_checks'] += 1
                if it['flag'] is None or it['flag'] > t_stop + 0.05:
                    # F9 again: the memory of a vanished object is forgotten, so the exit does not reach its daemons either
                    viol.append({'mech': 'gone-object-instance-not-stopped' if vanished(it['uid'], t_stop) else 'not-asked-to-stop',
                                 'msg': f"{it['h']} on {it['uid']}: stop requested at t={t_stop}; the running instance has no stop flag by t={t_stop + 0.05} (flag: {it['flag']})", 'witness': it})
                    break
            if it['kind'] == 'timer':
                late = [a for a, _ in it['calls'] if a > t_stop + 0.05]
                if late:
                    viol.append({'mech': 'gone-object-instance-not-stopped' if vanished(it['uid'], t_stop) else 'not-asked-to-stop', 'msg': f"timer {it['h']} on {it['uid']}: stop requested at t={t_stop}, yet it fired at t={late[:3]}", 'witness': None})
                    break

    sig = hashlib.sha1(repr(sorted(repr((it['h'], round(it['t0'], 3), it['flag'] and round(it['flag'], 3), tuple(round(c, 3) for c in it['cancels']),
                                         it['t1'] and round(it['t1'], 3), it['reasons'])) for it in insts.values())).encode()).hexdigest()[:16]
    nontrivial = any(k in str(it['reasons']) for it in insts.values() for k in ('FILTERS_MISMATCH', 'RESOURCE_DELETED', 'OPERATOR_PAUSING'))
    sample = None
    if case['name'] == 'rnd0':
        sample = {'handlers': [{k: v for k, v in h.items() if k != 'script'} for h in desc['handlers']], 'timeline': desc['timeline'][:8],
                  'instances': [{k: v for k, v in it.items() if k != 'calls'} for it in list(insts.values())[:6]]}
    return {'violations': viol, 'cov': cov, 'sig': sig, 'nontrivial': nontrivial, 'sample': sample,
            'trace': trace_lines(w) if case.get('_verbose') else None}

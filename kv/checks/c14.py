"""
C14 -- resume handlers run once per object per operator process.
"""
from __future__ import annotations

import hashlib
import random
from typing import Any

ID = 'C14'
LEVEL = 'exploration'
STALL = True
TIMEOUT_PER_CASE = 120.0
TECHNIQUE = ('runtime monitoring: exactly-once / at-most-once checker over recorded resume-handler outcomes per (operator incarnation, object uid), with expectations derived '
             'from the first listing each incarnation received from the fake API server; re-listings forced by compaction (410), stream breaks and inactivity reconnects')
LEVEL_TEXT = ('Held on the explored histories: operator restarts over pre-existing handled/unhandled/deleting objects, edits before/during/after the resume cycle (resume mixed '
              'into update), resume handlers that fail and are retried, watch streams broken and re-listed (410 after compaction, EOF, connection errors) any number of times '
              'after the object was resumed, objects created before and after the start. Sampled histories; counts are exact.')
LEVEL_NOTE = ('"Exactly once by quiescence" is only demanded for objects that were in the incarnation\'s first listing with a stored last-handled state, no progress records and no '
              'deletion mark (the statement\'s precondition); for all others only "at most once" (and zero where the statement says so).')
RULE = ("histories: 1-3 objects created before/after the (re)start, 0-2 restarts, edits/status edits/deletes at random instants incl. during downtime, 0-3 forced re-listings per "
        "incarnation, resume handlers r1..r2 with failure scripts and optional deleted=True; non-trivial = at least one resume success and one re-listing or edit around it; "
        "distinct = hash of (per-incarnation resume outcomes, relist count)")
ASSUMPTIONS = ["fake API server list/watch/410 semantics", "handlers have no filters here"]
GATES = {'resume_successes': 100, 'relist_after_resume': 20, 'resume_mixed_into_update': 5, 'resume_retried': 10, 'expected_exactly_once': 50, 'deleting_at_start': 3, 'unhandled_at_start': 3}


def rnd_desc(rng: random.Random, i: int) -> dict[str, Any]:
    handlers: list[dict[str, Any]] = [
        {'kind': 'create', 'id': 'c1', 'script': rng.choice([[], [['temp', 1]]])},
        {'kind': 'update', 'id': 'u1', 'script': rng.choice([[], [['temp', 1]], [['arb']]])},
        {'kind': 'resume', 'id': 'r1', 'script': rng.choice([[], [], [['temp', 1]], [['arb'], ['temp', 0.5]], [['slow', 1.0, ['ok']]]])},
    ]
    if rng.random() < 0.6:
        handlers.append({'kind': 'resume', 'id': 'r2', 'script': rng.choice([[], [['temp', 2]], [['perm']]]), 'opts': {'deleted': True} if rng.random() < 0.5 else {}})
    if rng.random() < 0.5:
        handlers.append({'kind': 'delete', 'id': 'd1', 'script': rng.choice([[], [['temp', 1]]])})
    if rng.random() < 0.25:
        # a daemon that takes several re-checks to exit: a deletion (with the resume handlers mixed in) spans more than one processing pass
        handlers.append({'kind': 'daemon', 'id': 'dm', 'persona': rng.choice([{'type': 'linger', 'linger': rng.choice([0.5, 3.0])}, {'type': 'obedient'}]), 'opts': {}})
    names = [f'o{k}' for k in range(rng.randint(1, 3))]
    tl: list[list[Any]] = [[0.0, 'start', 'op1']]
    for n in names:
        tl.append([round(rng.choice([0.5, 1.0, 6.0, 12.0]) + rng.uniform(0, 0.5), 3), 'create', n, {'spec': {'x': 0}}])
    t_stop = round(rng.uniform(3.0, 10.0), 3)
    gap = rng.choice([0.2, 2.0, 5.0])
    tl.append([t_stop, 'stop_wait', 'op1'])
    tl.append([round(t_stop + gap, 3), 'start', 'op2'])
    t2 = t_stop + gap
    if rng.random() < 0.4:
        t_stop2 = round(t2 + rng.uniform(2.0, 12.0), 3)
        tl.append([t_stop2, 'stop_wait', 'op2'])
        tl.append([round(t_stop2 + rng.choice([0.2, 3.0]), 3), 'start', 'op3'])
    t = 1.0
    for k in range(rng.randint(2, 8)):
        t = round(rng.uniform(1.0, t2 + 14.0), 3)
        n = rng.choice(names)
        r = rng.random()
        if r < 0.35:
            tl.append([t, 'edit', n, {'spec': {'x': rng.choice([k + 1, k + 1, 0])}}])      # (0: back to the value it was created and handled with)
        elif r < 0.55:
            tl.append([t, 'edit', n, {'status': {'f': k}}])
        elif r < 0.65:
            tl.append([t, 'delete', n])
        elif r < 0.85:
            tl.append([t, 'compact'])
            tl.append([round(t + 0.001, 4), 'break', rng.choice(['eof', 'conn', '410', 'timeout'])])
        else:
            tl.append([t, 'break', rng.choice(['eof', 'conn', 'payload'])])
    tl.sort(key=lambda x: x[0])
    return {'seed': rng.randrange(1 << 30), 'handlers': handlers, 'timeline': tl, 'quiet': 20.0, 'horizon': 500.0,
            'lifecycle': rng.choice([None, 'one_by_one', 'all_at_once']), 'storage': rng.choice(['default', 'status', 'annotations']),
            'prefix': None, 'settings': {'queueing__idle_timeout': rng.choice([0.5, 5.0]), 'persistence__consistency_timeout': 1.0, 'execution__default_backoff': 1.0,
                                         'watching__reconnect_backoff': 0.1, 'watching__inactivity_timeout': rng.choice([3.0, 70.0]),
                                         'background__cancellation_polling': 1.0},
            'lag': {'values': rng.choice([[0.0], [0.0, 0.2]])}}


def gen_cases(tier: str, seed: int):
    rng = random.Random(f'C14-{seed}')
    S = {'queueing__idle_timeout': 1.0, 'persistence__consistency_timeout': 1.0, 'execution__default_backoff': 1.0, 'watching__reconnect_backoff': 0.1}
    H = [{'kind': 'create', 'id': 'c1'}, {'kind': 'update', 'id': 'u1'}, {'kind': 'resume', 'id': 'r1', 'script': [['ok'], ['temp', 1], ['ok']]},
         {'kind': 'resume', 'id': 'r2', 'opts': {'deleted': True}}, {'kind': 'delete', 'id': 'd1', 'script': [['temp', 3]] * 3}]
    cases = [
        # resumed, then re-listed three times (410 after compaction), edited in between
        {'name': 'relist', 'desc': {'handlers': H, 'settings': S, 'quiet': 15.0, 'horizon': 300.0, 'timeline': [
            [0, 'start', 'op1'], [1, 'create', 'a', {'spec': {'x': 0}}], [4, 'stop_wait', 'op1'], [5, 'start', 'op2'], [8, 'compact'], [8.001, 'break', '410'],
            [10, 'edit', 'a', {'spec': {'x': 1}}], [12, 'compact'], [12.001, 'break', 'eof'], [14, 'edit', 'a', {'status': {'f': 1}}], [16, 'compact'], [16.001, 'break', 'conn']]}},
        # edited during downtime: resume mixed into update; a deleting object and an unhandled object met at start
        {'name': 'mixed', 'desc': {'handlers': H, 'settings': S, 'quiet': 15.0, 'horizon': 300.0, 'timeline': [
            [0, 'start', 'op1'], [1, 'create', 'a', {'spec': {'x': 0}}], [1.1, 'create', 'b', {'spec': {'x': 0}}], [4, 'stop_wait', 'op1'], [4.5, 'edit', 'a', {'spec': {'x': 1}}],
            [4.6, 'delete', 'b'], [4.7, 'create', 'c', {'spec': {'x': 9}}], [5, 'start', 'op2'], [9, 'compact'], [9.001, 'break', '410']]}},
    ]
    # an object created after the start, still in its (retrying) creation cycle when the stream is re-listed: it is not 'first seen in a listing'
    HN = [{'kind': 'create', 'id': 'c1', 'script': [['temp', 3], ['temp', 3], ['ok']]}, {'kind': 'update', 'id': 'u1'}, {'kind': 'resume', 'id': 'r1'},
          {'kind': 'resume', 'id': 'r2', 'opts': {'deleted': True}}, {'kind': 'delete', 'id': 'd1'}]
    # (creation never mixes with resuming; the deletion that supersedes the open creation would, if the object counted as met by a listing)
    for brk in ('410', 'eof'):
        for t_brk in (2.0, 3.5, 5.0):
            cases.append({'name': f'relist-during-creation-{brk}-{t_brk}', 'desc': {'handlers': HN, 'settings': S, 'quiet': 15.0, 'horizon': 300.0, 'timeline': [
                [0, 'start', 'op1'], [1, 'create', 'a', {'spec': {'x': 0}}], [t_brk, 'compact'], [round(t_brk + 0.001, 3), 'break', brk], [5.5, 'delete', 'a']]}})
    # the open resume cycle is superseded by another cause and comes back: one resume handler has succeeded, its sibling is waiting for a retry, when the
    # object is edited (update supersedes resuming) and the edit is reverted (resuming again), or the object is deleted (deletion with the opted-in one mixed in)
    for storage in ('default', 'status', 'annotations'):
        for lifecycle in (None, 'all_at_once'):
            for delay in (4.0, 9.0):
                for gap in (0.4, 1.5):
                    HS = [{'kind': 'create', 'id': 'c1'}, {'kind': 'update', 'id': 'u1'}, {'kind': 'resume', 'id': 'r1', 'opts': {'deleted': True}},
                          {'kind': 'resume', 'id': 'r2', 'script': [['temp', delay], ['ok']]}, {'kind': 'delete', 'id': 'd1'}, {'kind': 'delete', 'id': 'd2', 'script': [['temp', 1.5]]}]
                    base_tl = [[0, 'start', 'op1'], [1, 'create', 'a', {'spec': {'x': 0}}], [3, 'stop_wait', 'op1'], [4, 'start', 'op2']]
                    cases.append({'name': f'supersede-revert-{storage}-{lifecycle}-{delay}-{gap}', 'desc': {
                        'handlers': HS, 'settings': S, 'storage': storage, 'lifecycle': lifecycle, 'quiet': 15.0, 'horizon': 300.0,
                        'timeline': base_tl + [[5.0, 'edit', 'a', {'spec': {'x': 1}}], [round(5.0 + gap, 3), 'edit', 'a', {'spec': {'x': 0}}]]}})
                    cases.append({'name': f'supersede-delete-{storage}-{lifecycle}-{delay}-{gap}', 'desc': {
                        'handlers': HS, 'settings': S, 'storage': storage, 'lifecycle': lifecycle, 'quiet': 15.0, 'horizon': 300.0,
                        'timeline': base_tl + [[round(5.0 + gap, 3), 'delete', 'a']]}})
    # a built-in kind whose listing and watch events must agree on what the object IS: ReplicaSets owned by Deployments get their own storage keys, so the
    # records written in a cycle that began with a listing are found again in the cycles that begin with watch events (two restarts, two resume handlers)
    RS = {'group': 'apps', 'version': 'v1', 'plural': 'replicasets', 'kind': 'ReplicaSet', 'namespaced': True}
    for owned in (True, False):
        for storage in ('default', 'annotations'):
            HR = [{'kind': 'create', 'id': 'c1', 'resource': 'replicasets'}, {'kind': 'update', 'id': 'u1', 'resource': 'replicasets'},
                  {'kind': 'resume', 'id': 'r1', 'resource': 'replicasets'}, {'kind': 'resume', 'id': 'r2', 'resource': 'replicasets', 'script': [['temp', 1.0], ['ok'], ['temp', 1.0], ['ok']]}]
            body = {'spec': {'x': 0}, 'metadata': ({'ownerReferences': [{'apiVersion': 'apps/v1', 'kind': 'Deployment', 'name': 'd', 'uid': 'dep-1', 'controller': True}]} if owned else {})}
            cases.append({'name': f'replicaset-owned{int(owned)}-{storage}', 'desc': {
                'handlers': HR, 'settings': S, 'storage': storage, 'quiet': 15.0, 'horizon': 300.0, 'plural': 'replicasets', 'extra_resources': [RS],
                'timeline': [[0, 'start', 'op1'], [1, 'create', 'a', body], [4, 'stop_wait', 'op1'], [5, 'start', 'op2'], [12, 'stop_wait', 'op2'], [13, 'start', 'op3'],
                             [20, 'edit', 'a', {'spec': {'x': 1}}]]}})
    n = 500 if tier == 'quick' else 20000
    for i in range(n):
        cases.append({'name': f'rnd{i}', 'desc': rnd_desc(rng, i)})
    return cases


def run_case(case: dict[str, Any]) -> dict[str, Any]:
    from kv.monitors import Stall
    from kv.oracles import Index, trace_lines
    from kv.world import run_world

    Stall.take_hits()
    desc = case['desc']
    w = run_world(desc)
    PL = desc.get('plural', 'kopfexamples')
    ix = Index(w, plural=PL)
    sv = ix.sv
    viol: list[dict[str, Any]] = []
    cov = {k: 0 for k in GATES}
    for s in Stall.take_hits():
        viol.append({'mech': 'stall', 'msg': 'event loop stalled', 'witness': s})
    resume_ids = [h for h, s in ix.specs.items() if s['kind'] == 'resume']
    gq = next((e['g'] for e in w.events if e['k'] == 'note' and e['what'] == 'quiesced'), 1 << 60)
    sig_parts = []
    for name, inc in w.incs.items():
        lists = [r for r in w.requests if r.client == name and r.kind == 'list' and r.plural == PL and r.status == 200]
        if not lists:
            continue
        first = lists[0]
        first_rv = int(first.result_rv)
        relists = lists[1:]
        for uid in ix.uids:
            vs = [v for v in w.history[uid] if v['rv'] <= first_rv]
            listed = bool(vs) and vs[-1]['type'] != 'DELETED'
            body0 = vs[-1]['body'] if listed else None
            handled = listed and sv.diffbase(body0) is not None
            progress = listed and bool(sv.any_progress_keys(body0))
            deleting0 = listed and bool(body0['metadata'].get('deletionTimestamp'))
            cov['deleting_at_start'] += int(deleting0)
            cov['unhandled_at_start'] += int(listed and not handled)
            for h in resume_ids:
                calls = [c for c in ix.calls if c['inc'] == name and c['uid'] == uid and c['h'] == h and not c.get('post_mortem')]
                oks = [c for c in calls if (ix.rets.get(c['seq']) or {}).get('outcome') == 'ok']
                finals = [c for c in calls if ix.rets.get(c['seq']) is not None and ix.is_final(ix.rets[c['seq']])]
                cov['resume_successes'] += len(oks)
                cov['resume_retried'] += int(any((c.get('retry') or 0) > 0 for c in calls))
                cov['resume_mixed_into_update'] += int(any(c.get('reason') == 'update' for c in calls))
                opted = bool((ix.specs[h].get('opts') or {}).get('deleted'))
                if oks and any(r.g > oks[0]['g'] for r in relists):
                    cov['relist_after_resume'] += 1
                # the record of a completion cannot be kept if the object is gone when it is to be written (404): the events still queued for
                # the gone object are then processed without it (the same exemption as in C02)
                lost_404 = [r for r in w.requests if r.client == name and r.kind == 'patch' and r.status == 404 and finals and r.g > finals[0]['g']
                            and r.name == (w.history[uid][0]['body']['metadata'].get('name'))]
                if len(finals) > 1 and not lost_404:
                    viol.append({'mech': 'resumed-twice', 'msg': f"{h} completed {len(finals)} times for {uid} within the operator process {name} "
                                 f"(at t={[c['t'] for c in finals]}; {len(relists)} re-listings in that process)", 'witness': None})
                if not listed and calls:
                    # first seen in a RE-listing (it was created during a gap of the watch stream)? kopf marks every object first met in a listing as
                    # "noticed by listing", not only those of the first listing of the process
                    in_relist = [r for r in relists if r.g < calls[0]['g'] and any(v['rv'] <= int(r.result_rv) and v['type'] != 'DELETED' for v in w.history[uid])
                                 and not any(t <= r.t and u == uid for st in w.sim.kube.streams if st.client.name == name and st.plural == PL for t, _, u, _ in st.delivered)]
                    viol.append({'mech': 'resume-on-object-first-seen-in-relisting' if in_relist else 'resume-on-new-object',
                                 'msg': f"{h} ran for {uid}, which did not exist when {name} started (first seen {'in a re-listing after a broken stream' if in_relist else 'through the watch'})", 'witness': None})
                # (an object met at start-up under deletion and never handled before is a deletion with the opted-in resume handlers mixed in:
                #  the statement is silent about it; only a plain creation mistaken for a resuming is a violation)
                if listed and not handled and calls and not any(op_created_base(w, ix, uid, c) for c in calls) and not all(c.get('deleting') for c in calls):
                    viol.append({'mech': 'resume-on-unhandled-object', 'msg': f"{h} ran for {uid} (reason {calls[0].get('reason')}), which had never been handled before {name} started: it is a creation, not a resuming", 'witness': None})
                for c in calls:
                    if c['deleting'] and not opted:
                        viol.append({'mech': 'resume-on-deleting', 'msg': f"{h} (no deleted=True) ran for {uid} which is marked for deletion", 'witness': None})
                # exactly once by quiescence, under the statement's precondition
                alive_at_q = not inc.killed and (inc.t_end is None or inc.t_end >= (w.t_quiesced or 0)) and w.quiesced
                later = [v for v in w.history[uid] if v['rv'] > first_rv and v['g'] <= gq]
                survived = listed and not any(v['type'] == 'DELETED' or v['body']['metadata'].get('deletionTimestamp') for v in later)
                if alive_at_q and listed and handled and not progress and not deleting0 and survived:
                    cov['expected_exactly_once'] += 1
                    if len(finals) != 1:
                        viol.append({'mech': 'resume-missing', 'msg': f"{h} completed {len(finals)} times for {uid} in process {name}: the object existed at start, was handled before and had no "
                                     f"unfinished progress, so exactly one completed run is expected by quiescence", 'witness': {'calls': [(c['t'], c.get('retry'), c.get('reason')) for c in calls]}})
                sig_parts.append(f"{name}:{h}:{len(finals)}:{len(relists)}:{int(listed)}{int(handled)}{int(deleting0)}")
    if w.quiesced is False:
        viol.append({'mech': 'no-quiescence', 'msg': 'the operator kept writing until the horizon', 'witness': [r.brief() for r in w.requests[-4:]]})
    sig = hashlib.sha1(';'.join(sig_parts).encode()).hexdigest()[:16]
    sample = None
    if case['name'] in ('relist', 'rnd0'):
        sample = {'name': case['name'], 'timeline': desc['timeline'], 'resume_calls': [(round(c['t'], 3), c['inc'], c['h'], c['uid'], c.get('reason'), c.get('retry')) for c in ix.calls if c['kind'] == 'resume'][:20]}
    return {'violations': viol, 'cov': cov, 'sig': sig, 'nontrivial': cov['resume_successes'] > 0, 'sample': sample, 'trace': trace_lines(w) if case.get('_verbose') else None}


def op_created_base(w: Any, ix: Any, uid: str, call: dict[str, Any]) -> bool:
    """Did the view of this call already carry a last-handled state (so the object counts as handled by now)?"""
    view = {'metadata': {'annotations': call.get('annotations') or {}}, 'status': call.get('status') or {}}
    return ix.sv.diffbase(view) is not None

"""
C01 -- per-object event processing is serial, ordered and lossless.

Driver A ("queue"): the real queueing.watcher() + worker() + Scheduler + _wait_for_depletion, fed by a
scripted event source at exact virtual instants; the processor is a recorder with scripted durations.
Driver B ("loop"): the whole operator with an @kopf.on.event handler against FakeKube; what the handler
sees is compared with what the server delivered into the watch stream.
"""
from __future__ import annotations

import ast
import asyncio
import random
from typing import Any

ID = 'C01'
LEVEL = 'exploration'
TECHNIQUE = 'runtime monitoring: offline history checker (per-object FIFO/exactly-once/no-overlap/worker-limit) over recorded fed/start/end/worker events of the real watcher+worker+scheduler on a virtual clock, with deadline-aligned arrivals; sys.monitoring line probes for the timeout-with-backlog branch; a livelock detector (loop iterations without the clock moving by itself) next to the stall sanitizer'
LEVEL_TEXT = ('Held on the executions explored: thousands of scripted event streams through the real queueing.watcher/worker/Scheduler on virtual '
              'time, including arrivals constructed at the exact microsecond an idle worker retires (the branch the code marks as untestable is '
              'executed hundreds of times per run), saturated worker limits and cancellations; plus whole-operator runs comparing what @on.event '
              'handlers saw with what the fake API server put on the wire. Exploration is the right level: the property quantifies over interleavings, '
              'which a deterministic virtual clock can construct but not exhaust.')
LEVEL_NOTE = ('Trusted: looptime virtual clock (1us timer quantisation), the scripted event source standing in for the watch stream, kv/fakekube.py for the '
              'closed-loop part. Says nothing about interleavings not generated; coverage gates (branch probes, respawns, saturation, cancellation) must be non-zero.')
STALL = True
TIMEOUT_PER_CASE = 60.0
RULE = ("cases = scripted event streams (1-6 objects, 1-40 events) x idle_timeout x worker_limit x processing "
        "durations x arrival instants aligned with idle/consistency deadlines (+-us, 0-5 extra zero-time yields) x "
        "optional watcher cancellation; non-trivial = at least one worker retired or was respawned or the limit was "
        "saturated or the watcher was cancelled with events outstanding; distinct = hash of the order of "
        "fed/start/end/worker-enter/worker-exit events (kinds and objects, no times)")
ASSUMPTIONS = [
    "watching.infinite_watch is replaced by a scripted async generator (the stream is the quantified input)",
    "virtual time (looptime, 1us resolution): same-instant callback order is perturbed only by zero-time yields of the feeder",
    "driver B trusts the fake API server's watch implementation (kv/fakekube.py)",
]
GATES = {'timeout_with_backlog_continue': 1, 'retire_then_respawn': 1, 'limit_saturated_runs': 1,
         'cancelled_runs': 1, 'loop_events_compared': 1}


def prepare() -> None:
    from kopf._core.reactor import queueing
    from kv.monitors import LineProbe

    def find_continue(tree: ast.AST) -> int | None:
        for node in ast.walk(tree):
            if isinstance(node, ast.ExceptHandler) and node.type is not None and 'TimeoutError' in ast.unparse(node.type):
                for sub in ast.walk(node):
                    if isinstance(sub, ast.Continue):
                        return sub.lineno
        return None

    def find_break(tree: ast.AST) -> int | None:
        for node in ast.walk(tree):
            if isinstance(node, ast.ExceptHandler) and node.type is not None and 'TimeoutError' in ast.unparse(node.type):
                for sub in ast.walk(node):
                    if isinstance(sub, ast.Break):
                        return sub.lineno
        return None
    LineProbe.add(queueing.worker, 'timeout_with_backlog_continue', find_continue)
    LineProbe.add(queueing.worker, 'timeout_retire_break', find_break)


# ------------------------------------------------------------------------------------------
def gen_cases(tier: str, seed: int):
    rng = random.Random(f'C01-{seed}')
    n_random = 1500 if tier == 'quick' else 60000
    n_loop = 40 if tier == 'quick' else 1500
    cases: list[dict[str, Any]] = []
    # --- directed: an event arriving at the very instant an idle worker retires
    for idle in (0.1, 0.5, 1.0):
        for dur in (0.0, 0.2, 1.5):
            for delta_us in (-2, -1, 0, 1, 2):
                for yields in range(0, 6):
                    t1 = 1.0
                    t2 = round(t1 + dur + idle + delta_us * 1e-6, 6)
                    cases.append({'name': f'retire-i{idle}-d{dur}-e{delta_us}-y{yields}', 'mode': 'queue',
                                  'idle': idle, 'limit': None, 'exit_timeout': 5.0, 'ctimeout': 0.0,
                                  'events': [[t1, 'u1', 0, dur, None], [t2, 'u1', yields, dur, None],
                                             [round(t2 + dur + idle, 6), 'u1', yields, 0.0, None]],
                                  'cancel_at': None})
    # --- directed: consistency deadline prolongs the worker; arrival at that deadline
    for ct in (0.3, 2.0):
        for delta_us in (-1, 0, 1):
            for yields in (0, 1, 3):
                idle = 0.5
                t2 = round(1.0 + 0.1 + max(idle, ct) + delta_us * 1e-6, 6)
                cases.append({'name': f'consist-c{ct}-e{delta_us}-y{yields}', 'mode': 'queue', 'idle': idle,
                              'limit': None, 'exit_timeout': 5.0, 'ctimeout': ct,
                              'events': [[1.0, 'u1', 0, 0.1, 'never'], [t2, 'u1', yields, 0.1, None]],
                              'cancel_at': None})
    # --- directed: saturated worker limit
    for limit in (1, 2):
        evs = []
        for i in range(6):
            evs.append([1.0 + 0.01 * i, f'u{i % 4}', 0, 0.3, None])
        cases.append({'name': f'limit{limit}', 'mode': 'queue', 'idle': 0.5, 'limit': limit, 'exit_timeout': 5.0,
                      'ctimeout': 0.0, 'events': evs, 'cancel_at': None})
    # --- directed: cancellation with outstanding work, exit_timeout shorter/longer
    for et in (0.1, 10.0):
        cases.append({'name': f'cancel-et{et}', 'mode': 'queue', 'idle': 1.0, 'limit': None, 'exit_timeout': et,
                      'ctimeout': 0.0,
                      'events': [[1.0, 'u1', 0, 1.0, None], [1.1, 'u1', 0, 1.0, None], [1.2, 'u2', 0, 0.5, None],
                                 [1.3, 'u1', 0, 1.0, None]],
                      'cancel_at': 1.5})
    # --- random exploration
    for i in range(n_random):
        idle = rng.choice([0.1, 0.5, 1.0, 5.0])
        limit = rng.choice([None, None, 1, 2, 3])
        ct = rng.choice([0.0, 0.0, 0.3, 2.0])
        nuids = rng.randint(1, 6)
        nev = rng.randint(1, 40 if tier == 'thorough' else 16)
        t = 1.0
        evs = []
        busy_until: dict[str, float] = {}
        for _ in range(nev):
            uid = f'u{rng.randrange(nuids)}'
            how = rng.random()
            if how < 0.35:
                t = round(t + rng.choice([0.0, 0.0, 0.001, 0.05, 0.2]), 6)                 # burst
            elif how < 0.7:
                base = busy_until.get(uid, t)
                t = round(max(t, base + rng.choice([idle, max(idle, ct)]) + rng.choice([-2, -1, 0, 0, 1, 2]) * 1e-6), 6)  # aligned
            else:
                t = round(t + rng.uniform(0, 3 * idle), 6)
            dur = rng.choice([0.0, 0.0, idle / 2, idle, idle * 2, 0.01])
            ver = rng.choice([None, None, None, 'echo', 'never']) if ct else None
            evs.append([t, uid, rng.choice([0, 0, 0, 1, 2, 5]), dur, ver])
            busy_until[uid] = max(busy_until.get(uid, 0.0), t) + dur
        cancel_at = round(rng.uniform(1.0, t + 2.0), 6) if rng.random() < 0.25 else None
        cases.append({'name': f'rnd{i}', 'mode': 'queue', 'idle': idle, 'limit': limit,
                      'exit_timeout': rng.choice([0.1, 2.0, 30.0]), 'ctimeout': ct, 'events': evs, 'cancel_at': cancel_at})
    # --- closed loop
    for i in range(n_loop):
        cases.append({'name': f'loop{i}', 'mode': 'loop', 'seed': rng.randrange(1 << 30),
                      'idle': rng.choice([0.1, 1.0, 5.0]), 'limit': rng.choice([None, 1, 2]),
                      'nobj': rng.randint(1, 4), 'nops': rng.randint(3, 25), 'dur': rng.choice([0.0, 0.05, 0.5, 2.0]),
                      'lag': rng.choice([0.0, 0.0, 0.3])})
    return cases


# ------------------------------------------------------------------------------------------
def run_case(case: dict[str, Any]) -> dict[str, Any]:
    if case['mode'] == 'queue':
        return run_queue(case)
    return run_loop(case)


def run_queue(case: dict[str, Any]) -> dict[str, Any]:
    import kopf
    from kopf._cogs.clients import watching
    from kopf._cogs.structs import references
    from kopf._core.reactor import queueing
    from kv import vtime
    from kv.monitors import LineProbe, Stall

    LineProbe.reset()
    Stall.take_hits()
    loop = vtime.new_loop(0.0)
    trace: list[tuple[float, str, str, int]] = []   # (t, kind, uid, seq)
    resource = references.Resource(group='kopf.dev', version='v1', plural='kopfexamples', kind='KopfExample',
                                   singular='kopfexample', shortcuts=frozenset(), categories=frozenset(),
                                   subresources=frozenset(), namespaced=True, preferred=True, verbs=frozenset(['list', 'watch', 'patch']))
    events = case['events']
    seq_of: dict[int, Any] = {}
    by_uid: dict[str, list[int]] = {}
    for i, (t, uid, yields, dur, ver) in enumerate(events):
        seq_of[1000 + i] = (t, uid, yields, dur, ver)
        by_uid.setdefault(uid, []).append(1000 + i)

    settings = kopf.OperatorSettings()
    settings.queueing.idle_timeout = case['idle']
    settings.queueing.worker_limit = case['limit']
    settings.queueing.exit_timeout = case['exit_timeout']
    settings.persistence.consistency_timeout = case['ctimeout']
    feeder_done = asyncio.Event()

    async def fake_infinite_watch(**_: Any):
        try:
            yield watching.Bookmark.LISTED
            for i, (t, uid, yields, dur, ver) in enumerate(events):
                d = round(t - loop.time(), 6)
                if d > 0:
                    await asyncio.sleep(d)
                for _ in range(yields):
                    await asyncio.sleep(0)
                seq = 1000 + i
                trace.append((loop.time(), 'fed', uid, seq))
                yield {'type': 'MODIFIED', 'object': {'metadata': {'uid': uid, 'name': uid, 'resourceVersion': str(seq)}}}
            feeder_done.set()
            await asyncio.Event().wait()
        finally:
            feeder_done.set()

    async def processor(*, raw_event: Any, stream_pressure: Any = None, resource_indexed: Any = None,
                        operator_indexed: Any = None, consistency_time: Any = None) -> Any:
        meta = raw_event['object']['metadata']
        seq = int(meta['resourceVersion'])
        uid = meta['uid']
        trace.append((loop.time(), 'start', uid, seq))
        _, _, _, dur, ver = seq_of[seq]
        if dur > 0:
            await asyncio.sleep(dur)
        trace.append((loop.time(), 'end', uid, seq))
        if ver == 'never':
            return 'never-arrives'
        if ver == 'echo':
            later = [s for s in by_uid[uid] if s > seq]
            return str(later[0]) if later else 'never-arrives'
        return None

    orig_worker = queueing.worker
    orig_watch = watching.infinite_watch

    async def traced_worker(**kw: Any) -> None:
        uid = kw['key'][1]
        trace.append((loop.time(), 'wenter', uid, 0))
        try:
            await orig_worker(**kw)
        finally:
            trace.append((loop.time(), 'wexit', uid, 0))

    last_t = max(e[0] for e in events)
    total_dur = sum(e[3] for e in events)
    t_end = last_t + total_dur + (len(events) + 2) * (case['idle'] + case['ctimeout']) + 10.0
    result: dict[str, Any] = {}

    async def main() -> None:
        queueing.worker = traced_worker  # type: ignore[assignment]
        watching.infinite_watch = fake_infinite_watch  # type: ignore[assignment]
        try:
            task = asyncio.create_task(queueing.watcher(namespace=None, settings=settings, resource=resource, processor=processor))
            cancel_at = case['cancel_at']
            if cancel_at is not None:
                await asyncio.sleep(round(max(0.0, cancel_at - loop.time()), 6))
            else:
                await asyncio.sleep(round(max(0.0, t_end - loop.time()), 6))
            result['t_cancel'] = loop.time()
            result['watcher_done_before_cancel'] = task.done()
            task.cancel()
            try:
                await task
            except asyncio.CancelledError:
                pass
            except BaseException as e:
                result['watcher_exc'] = repr(e)
            result['t_exit'] = loop.time()
        finally:
            queueing.worker = orig_worker  # type: ignore[assignment]
            watching.infinite_watch = orig_watch  # type: ignore[assignment]

    try:
        loop.run_until_complete(main())
    finally:
        pending = [t for t in asyncio.all_tasks(loop) if not t.done()]
        for t in pending:
            t.cancel()
        if pending:
            loop.run_until_complete(asyncio.gather(*pending, return_exceptions=True))
        loop.close()
        asyncio.set_event_loop(None)

    return judge_queue(case, trace, result, LineProbe.counts(), Stall.take_hits())


def judge_queue(case: dict[str, Any], trace: list[tuple[float, str, str, int]], result: dict[str, Any],
                probes: dict[str, int], stalls: list[dict[str, Any]]) -> dict[str, Any]:
    viol: list[dict[str, Any]] = []
    cov: dict[str, int] = dict(probes)
    cancelled = case['cancel_at'] is not None
    limit = case['limit']
    fed: dict[str, list[tuple[float, int]]] = {}
    started: dict[str, list[tuple[float, int]]] = {}
    ended: dict[int, float] = {}
    for t, k, uid, seq in trace:
        if k == 'fed':
            fed.setdefault(uid, []).append((t, seq))
        elif k == 'start':
            started.setdefault(uid, []).append((t, seq))
        elif k == 'end':
            ended[seq] = t
    if stalls:
        viol.append({'mech': 'stall', 'msg': 'event loop stalled in the queueing component', 'witness': stalls[0]})
    if 'watcher_exc' in result:
        viol.append({'mech': 'watcher-failed', 'msg': f"watcher raised {result['watcher_exc']}", 'witness': result})
    t_cancel = result.get('t_cancel', 1e18)
    outstanding_at_cancel = False
    seq_dur = {1000 + i: e[3] for i, e in enumerate(case['events'])}
    for uid, f in fed.items():
        f_seqs = [s for _, s in f]
        s_seqs = [s for _, s in started.get(uid, [])]
        if len(set(s_seqs)) != len(s_seqs):
            viol.append({'mech': 'duplicate', 'msg': f'{uid}: an event was processed twice', 'witness': {'fed': f_seqs, 'started': s_seqs}})
        if cancelled:
            fed_before = [s for t, s in f if t <= t_cancel]
            if s_seqs != f_seqs[:len(s_seqs)]:
                viol.append({'mech': 'order-or-loss', 'msg': f'{uid}: processed events are not a prefix of the delivered ones',
                             'witness': {'fed': f_seqs, 'started': s_seqs}})
            if len(s_seqs) < len(fed_before):
                outstanding_at_cancel = True
            if any(ended.get(s2, 1e18) > t_cancel for _, s2 in f if _ <= t_cancel):
                outstanding_at_cancel = True
            # graceful shutdown: if the exit timeout covers ALL outstanding work (counted serially, the worst case
            # under any worker limit), everything delivered before the cancellation is still processed.
            outstanding = sum(seq_dur[s2] for uu, ff in fed.items() for tt, s2 in ff if tt <= t_cancel and ended.get(s2, 1e18) > t_cancel)
            if outstanding + 0.01 < case['exit_timeout'] and len(s_seqs) < len(fed_before):
                viol.append({'mech': 'loss-at-shutdown', 'msg': f'{uid}: delivered {fed_before} before the cancellation, exit_timeout '
                             f"{case['exit_timeout']} covers the outstanding {outstanding}s, but only {s_seqs} were processed",
                             'witness': {'fed': f, 'started': started.get(uid, []), 't_cancel': t_cancel}})
        else:
            if s_seqs != f_seqs:
                kind = 'loss' if set(s_seqs) < set(f_seqs) and s_seqs == [s for s in f_seqs if s in set(s_seqs)] else 'order-or-loss'
                viol.append({'mech': kind, 'msg': f'{uid}: delivered {f_seqs} but processed {s_seqs}',
                             'witness': {'fed': f, 'started': started.get(uid, []), 'case': case['name']}})
        # serial: intervals never overlap
        prev_end = -1.0
        for t, s in started.get(uid, []):
            if t < prev_end - 1e-9:
                viol.append({'mech': 'overlap', 'msg': f'{uid}: event {s} started at {t} before the previous ended at {prev_end}',
                             'witness': {'started': started.get(uid), 'ended': {k: v for k, v in ended.items()}}})
            prev_end = ended.get(s, 1e18)
    # worker accounting
    live: dict[str, int] = {}
    max_live = 0
    wints: list[tuple[float, float, str]] = []
    open_w: dict[str, float] = {}
    respawn = 0
    exits_seen: set[str] = set()
    for t, k, uid, _ in trace:
        if k == 'wenter':
            if uid in open_w:
                viol.append({'mech': 'two-workers', 'msg': f'{uid}: a second worker started while one is alive', 'witness': [x for x in trace if x[2] == uid][:40]})
            open_w[uid] = t
            if uid in exits_seen:
                respawn += 1
            max_live = max(max_live, len(open_w))
        elif k == 'wexit':
            if uid in open_w:
                wints.append((open_w.pop(uid), t, uid))
            exits_seen.add(uid)
    for uid, t in open_w.items():
        wints.append((t, 1e18, uid))
    cov['retire_then_respawn'] = respawn
    if limit is not None and max_live > limit:
        viol.append({'mech': 'limit-exceeded', 'msg': f'{max_live} workers alive at once with worker_limit={limit}', 'witness': wints[:20]})
    # independence / promptness
    saturated = False
    for uid, st in started.items():
        fmap = dict((s, t) for t, s in fed[uid])
        prev_end = 0.0
        for t, s in st:
            ready = max(fmap.get(s, 0.0), prev_end)
            if t > ready + 1e-9:
                if limit is None:
                    if not cancelled or t < t_cancel:
                        viol.append({'mech': 'needless-wait', 'msg': f'{uid}: event {s} ready at {ready} but started at {t} with no worker limit',
                                     'witness': {'trace': [x for x in trace if ready - 1 <= x[0] <= t + 1e-9][:60]}})
                else:
                    saturated = True
                    points = sorted({x[0] for x in trace if ready < x[0] < t} | {(ready + t) / 2})
                    for p in points:
                        alive = sum(1 for a, b, u in wints if a <= p < b and u != uid)
                        if alive < limit and not (cancelled and p >= t_cancel):
                            viol.append({'mech': 'needless-wait', 'msg': f'{uid}: event {s} waited at t={p} although only {alive} other workers were alive (limit {limit})',
                                         'witness': {'ready': ready, 'start': t, 'workers': wints[:20]}})
                            break
            prev_end = ended.get(s, 1e18)
    cov['limit_saturated_runs'] = int(saturated)
    cov['cancelled_runs'] = int(cancelled and outstanding_at_cancel)
    cov['queue_runs'] = 1
    cov['events_fed'] = sum(len(v) for v in fed.values())
    # bounded exit: after cancellation, the watcher returns within exit_timeout (+ nothing else to wait for)
    if 't_exit' in result and 't_cancel' in result:
        outstanding = sum(d for (t, uid, y, d, v) in case['events'])
        bound = min(case['exit_timeout'], outstanding + 1.0) + 1.0
        if result['t_exit'] - result['t_cancel'] > bound + 1e-6:
            viol.append({'mech': 'slow-exit', 'msg': f"watcher needed {result['t_exit'] - result['t_cancel']}s to exit; bound {bound}", 'witness': result})
    order = ';'.join(f'{k}:{u}' for _, k, u, _ in trace)
    import hashlib
    sig = hashlib.sha1(order.encode()).hexdigest()[:16]
    nontrivial = bool(respawn or saturated or (cancelled and outstanding_at_cancel) or probes.get('timeout_retire_break'))
    sample = {'case': {k: case[k] for k in ('name', 'idle', 'limit', 'ctimeout', 'cancel_at')}, 'events': case['events'][:6],
              'trace_head': [list(x) for x in trace[:14]]}
    return {'violations': viol, 'cov': cov, 'sig': sig, 'nontrivial': nontrivial, 'sample': sample,
            'trace': [repr(x) for x in trace]}


# ------------------------------------------------------------------------------------------
def run_loop(case: dict[str, Any]) -> dict[str, Any]:
    from kv.driver import Sim
    from kv.monitors import Stall
    from kv.recorder import build_registry

    Stall.take_hits()
    rng = random.Random(case['seed'])
    sim = Sim(seed=case['seed'])
    dur = case['dur']
    specs = [{'kind': 'event', 'id': 'ev', 'script': [['slow', dur]] * 1000 if dur else []}]
    reg = build_registry(sim.rec, specs)
    lag = case['lag']
    if lag:
        sim.kube.lag_fn = lambda s, ev: rng.choice([0.0, lag]) if s.plural == 'kopfexamples' else 0.0
    names = [f'o{i}' for i in range(case['nobj'])]
    KEX = ('kopfexamples', 'ns1')

    async def scenario(sim: Sim) -> None:
        # some objects exist before the operator starts (listing), others appear later
        for n in names[:1]:
            sim.kube.create(*KEX, n, {'apiVersion': 'kopf.dev/v1', 'kind': 'KopfExample', 'spec': {'x': 0}})
        s = sim.settings(queueing__idle_timeout=case['idle'], queueing__worker_limit=case['limit'],
                         watching__server_timeout=None)
        op = sim.operator('op', reg, s).start()
        await asyncio.sleep(1.0)
        t = 1.0
        for i in range(case['nops']):
            n = rng.choice(names)
            how = rng.random()
            t = round(t + rng.choice([0.0, 0.0, 0.01, case['idle'], case['idle'] + dur, rng.uniform(0, 2)]), 6)
            await sim.sleep_until(t)
            if sim.kube.get(*KEX, n) is None:
                sim.kube.create(*KEX, n, {'apiVersion': 'kopf.dev/v1', 'kind': 'KopfExample', 'spec': {'x': i}})
            elif how < 0.8:
                sim.kube.edit(*KEX, n, {'spec': {'x': i + 100}})
            else:
                sim.kube.delete(*KEX, n)
        # generous: with a worker limit every switch between objects may cost a full idle timeout
        await sim.sleep((case['nops'] + case['nobj'] + 2) * (dur + case['idle'] + 1.0) + 20.0)
        await op.stop_and_wait(120.0)

    sim.run(scenario)
    viol: list[dict[str, Any]] = []
    stalls = Stall.take_hits()
    if stalls:
        viol.append({'mech': 'stall', 'msg': 'event loop stalled', 'witness': stalls[0]})
    # what the server put on the wire for the operator, per uid, in delivery order (listing first)
    wire: dict[str, list[tuple[str | None, str]]] = {}
    for r in sim.kube.requests:
        pass
    listed = [h for h in sim.kube.history.values()]
    # listing result: objects existing at the first list request
    first_list_rv = None
    for r in sim.kube.requests:
        if r.kind == 'list' and r.plural == 'kopfexamples':
            first_list_rv = int(r.result_rv)
            break
    for uid, versions in sim.kube.history.items():
        if versions[0]['plural'] != 'kopfexamples':
            continue
        before = [v for v in versions if v['rv'] <= (first_list_rv or 0)]
        if before and before[-1]['type'] != 'DELETED':
            wire.setdefault(uid, []).append((None, str(before[-1]['rv'])))
    for s in sim.kube.streams:
        if s.plural != 'kopfexamples':
            continue
        for t, typ, uid, rv in s.delivered:
            if uid is not None and typ in ('ADDED', 'MODIFIED', 'DELETED'):
                lst = wire.setdefault(uid, [])
                if not lst or int(rv) > int(lst[-1][1]):
                    lst.append((typ, rv))
    seen: dict[str, list[tuple[str | None, str]]] = {}
    open_calls: dict[str, float] = {}
    for e in sim.rec.events:
        if e['k'] == 'call' and e['h'] == 'ev':
            seen.setdefault(e['uid'], []).append((e['etype'], e['rv']))
            if e['uid'] in open_calls:
                viol.append({'mech': 'overlap', 'msg': f"{e['uid']}: handler invoked while the previous invocation is running", 'witness': e})
            open_calls[e['uid']] = e['t']
        elif e['k'] == 'ret' and e['h'] == 'ev':
            open_calls.pop(e['uid'], None)
    compared = 0
    for uid, w in wire.items():
        got = seen.get(uid, [])
        compared += len(w)
        if got != w:
            mech = 'loss' if len(got) < len(w) else 'order-or-loss'
            viol.append({'mech': mech, 'msg': f'{uid}: server delivered {w} but the handler saw {got}', 'witness': {'wire': w, 'seen': got}})
    import hashlib
    sig = hashlib.sha1(repr(sorted((u, len(w)) for u, w in wire.items())).encode() + repr(case['idle']).encode()).hexdigest()[:16]
    return {'violations': viol, 'cov': {'loop_runs': 1, 'loop_events_compared': compared}, 'sig': 'L' + sig,
            'nontrivial': compared > 3,
            'sample': None if case['name'] != 'loop0' else {'case': case, 'wire': {u: w[:6] for u, w in list(wire.items())[:2]}}}

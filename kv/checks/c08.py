"""
C08 -- accumulated patches are delivered completely, atomically and exactly once, and only to the object they were computed for.

(a/b) the real patching.patch_obj (through the real API client code) against FakeKube: patch shapes x status subresource x a foreign
      write slipped before each of the up-to-four requests x 404/422 answers -- enumerated; plus random patch contents.
(c)   closed loop: delete-and-recreate under the same name while a slow handler / daemon of the old object is still running.
"""
from __future__ import annotations

import asyncio
import copy
import hashlib
import itertools
import json
import random
from typing import Any

ID = 'C08'
LEVEL = 'fault_enumeration'
STALL = True
TIMEOUT_PER_CASE = 120.0
TECHNIQUE = ('runtime monitoring with fault enumeration: the real patch_obj/API client run against the fake API server for every (patch shape, status-subresource, '
             'position of a concurrent foreign write relative to the four possible requests, 404/422 answer) combination; final server state and request sequence '
             'compared with an independent sequential model; uid-vs-landing monitor (contract on patch_and_check) in closed-loop delete-and-recreate scenarios')
LEVEL_TEXT = ('The fault space of one patching call is finite and small and is enumerated completely in both tiers: 12 patch shapes x {with, without} status subresource x '
              'foreign write before request 1..4 or none x fault {none, 404, 422} at request 1..4 (exhaustive: true for that block). Random patch contents and the '
              'closed-loop delete-and-recreate timings are sampled.')
LEVEL_NOTE = ('The model of expected effects is sequential: merge parts always apply; transformation ops apply iff the version they were computed from is still current; '
              'carried-forward transformations are re-run by a second call on fresh state (what the next handling cycle does). Known finding: requests address objects by '
              'name, so a patch computed for a deleted object lands on its re-created namesake.')
RULE = ("enum: all combinations above; rand: random body/status fields + 0-3 transformation functions (idempotent and counting) with random slips; recreate: a slow handler or "
        "daemon on object A, A deleted and re-created at a random phase. non-trivial = at least 2 requests or a fault/slip; distinct = (shape, subresource, slip, fault) or hash of patch")
ASSUMPTIONS = ["fake API server merge/JSON-patch/status-subresource semantics", "the next cycle is modelled by a second patch_obj call with the returned remaining patch"]
GATES = {'enum_cases': 2000, 'enum_422': 20, 'enum_404': 20, 'enum_slips': 100, 'carried_forward': 20, 'rand_cases': 100, 'recreate_runs': 10, 'patch_and_check_calls': 20}

FIN = 'kopf.zalando.org/KopfFinalizerMarker'


def fn_add_fin(body: dict[str, Any]) -> None:
    if FIN not in body.get('metadata', {}).get('finalizers', []):
        body.setdefault('metadata', {}).setdefault('finalizers', []).append(FIN)


def fn_del_fin(body: dict[str, Any]) -> None:
    while FIN in body.get('metadata', {}).get('finalizers', []):
        body['metadata']['finalizers'].remove(FIN)
    if 'finalizers' in body.get('metadata', {}) and not body['metadata']['finalizers']:
        del body['metadata']['finalizers']


def fn_count(body: dict[str, Any]) -> None:
    """NOT idempotent: counts how many times it took effect."""
    body.setdefault('spec', {})['applied'] = (body.get('spec') or {}).get('applied', 0) + 1


def fn_status_cond(body: dict[str, Any]) -> None:
    body.setdefault('status', {})['conditions'] = [{'type': 'Ready', 'n': len((body.get('status') or {}).get('conditions') or []) + 1}]


FNS = {'add_fin': fn_add_fin, 'del_fin': fn_del_fin, 'count': fn_count, 'status_cond': fn_status_cond}

SHAPES: list[dict[str, Any]] = [
    {'body': None, 'status': None, 'fns': []},
    {'body': {'metadata': {'annotations': {'a': 'b'}}}, 'status': None, 'fns': []},
    {'body': None, 'status': {'x': 1}, 'fns': []},
    {'body': {'metadata': {'annotations': {'a': 'b'}}}, 'status': {'x': 1}, 'fns': []},
    {'body': None, 'status': None, 'fns': ['add_fin']},
    {'body': None, 'status': None, 'fns': ['status_cond']},
    {'body': None, 'status': None, 'fns': ['count', 'status_cond']},
    {'body': {'metadata': {'annotations': {'a': 'b'}}}, 'status': None, 'fns': ['del_fin']},
    {'body': None, 'status': {'x': 1}, 'fns': ['add_fin']},
    {'body': {'metadata': {'annotations': {'a': None}}, 'spec': {'y': 2}}, 'status': {'x': 1}, 'fns': ['count']},
    {'body': {'metadata': {'annotations': {'a': 'b'}}}, 'status': {'x': 1}, 'fns': ['add_fin', 'status_cond']},
    {'body': {'metadata': {'labels': {'l': 'v'}}}, 'status': {'x': None}, 'fns': ['del_fin', 'count', 'status_cond']},
]


def gen_cases(tier: str, seed: int):
    rng = random.Random(f'C08-{seed}')
    cases: list[dict[str, Any]] = []
    # exhaustive block, split into batches
    combos = []
    for si, sub in itertools.product(range(len(SHAPES)), (False, True)):
        for slip in (None, 1, 2, 3, 4):
            for fault_at in (None, 1, 2, 3, 4):
                for fault in ((None,) if fault_at is None else (404, 422)):
                    for has_status in (True, False):    # a fresh custom resource has no status stanza at all
                        combos.append([si, sub, slip, fault_at, fault, has_status])
    for i in range(0, len(combos), 100):
        cases.append({'name': f'enum{i // 100}', 'mode': 'enum', 'combos': combos[i:i + 100]})
    nr = 10 if tier == 'quick' else 400
    for i in range(nr):
        cases.append({'name': f'rand{i}', 'mode': 'rand', 'seed': rng.randrange(1 << 30), 'n': 60})
    nc = 60 if tier == 'quick' else 3000
    for i in range(nc):
        cases.append({'name': f'recreate{i}', 'mode': 'recreate', 'seed': rng.randrange(1 << 30)})
    return cases


def run_case(case: dict[str, Any]) -> dict[str, Any]:
    if case['mode'] == 'recreate':
        return run_recreate(case)
    return run_component(case)


# ------------------------------------------------------------------------------------------
def strip_sys(b: dict[str, Any] | None) -> Any:
    if b is None:
        return None
    b = copy.deepcopy(b)
    for k in ('resourceVersion', 'generation', 'creationTimestamp', 'uid'):
        b.get('metadata', {}).pop(k, None)
    return b


def run_component(case: dict[str, Any]) -> dict[str, Any]:
    import logging
    import kopf
    from kopf._cogs.clients import auth, patching
    from kopf._cogs.structs import bodies, credentials, patches, references
    from kv import fakekube, vtime
    from kv.fakekube import merge_patch

    viol: list[dict[str, Any]] = []
    cov = {k: 0 for k in GATES}
    sig = hashlib.sha1()
    sample = None
    rng = random.Random(case.get('seed', 0))
    if case['mode'] == 'enum':
        items = [{'shape': SHAPES[c[0]], 'sub': c[1], 'slip': c[2], 'fault_at': c[3], 'fault': c[4], 'has_status': c[5], 'key': c} for c in case['combos']]
    else:
        items = []
        for i in range(case['n']):
            body = None
            if rng.random() < 0.7:
                body = {'metadata': {'annotations': {rng.choice(['a', 'k.io/x']): rng.choice(['v', None, ''])}}}
                if rng.random() < 0.4:
                    body['spec'] = {'y': rng.choice([1, {'z': [1]}, None])}
                if rng.random() < 0.3:
                    body['metadata']['labels'] = {'l': rng.choice(['a', None])}
            status = rng.choice([None, {'x': 1}, {'kopf': {'progress': {'h': {'retries': 1}}}}, {'x': None, 'deep': {'a': {'b': 1}}}])
            fns = rng.sample(list(FNS), k=rng.randint(0, 3))
            items.append({'shape': {'body': body, 'status': status, 'fns': fns}, 'sub': rng.random() < 0.5,
                          'slip': rng.choice([None, None, 1, 2, 3, 4]), 'fault_at': rng.choice([None, None, None, 1, 2, 3]), 'fault': rng.choice([404, 422]),
                          'has_status': rng.random() < 0.6, 'key': None})

    for item in items:
        shape, sub = item['shape'], item['sub']
        loop = vtime.new_loop(0.0)
        res = fakekube.KEX_S if sub else fakekube.KEX
        kube = fakekube.FakeKube([res])
        client = kube.client('op')
        initial = {'apiVersion': 'kopf.dev/v1', 'kind': 'KopfExample', 'metadata': {'finalizers': ['other/fin'] + ([FIN] if 'del_fin' in shape['fns'] else []), 'annotations': {'a': 'old'}},
                   'spec': {'y': 0}, 'status': {'x': 0, 'conditions': []}}
        if not item.get('has_status', True):
            del initial['status']
        created = kube.create('kopfexamples', 'ns1', 'obj', copy.deepcopy(initial))
        resource = references.Resource(group='kopf.dev', version='v1', plural='kopfexamples', kind='KopfExample', singular='kopfexample', shortcuts=frozenset(),
                                       categories=frozenset(), subresources=frozenset(['status'] if sub else []), namespaced=True, preferred=True,
                                       verbs=frozenset(['list', 'watch', 'patch']))
        settings = kopf.OperatorSettings()
        settings.networking.error_backoffs = []
        # what the reference model tracks
        slips_done: list[int] = []
        nreq = {'n': 0}

        def fault_fn(req: fakekube.Request) -> list[fakekube.Fault] | None:
            if req.kind != 'patch':
                return None
            nreq['n'] += 1
            out = []
            if item['slip'] == nreq['n']:
                def do(k: fakekube.FakeKube) -> None:
                    k.edit('kopfexamples', 'ns1', 'obj', {'metadata': {'labels': {'slipped': str(nreq['n'])}, 'finalizers': ['front/fin'] + list(k.get('kopfexamples', 'ns1', 'obj')['metadata'].get('finalizers') or [])}})
                    slips_done.append(nreq['n'])
                out.append(fakekube.Fault('slip', fn=do))
            if item['fault_at'] == nreq['n'] and item['fault'] is not None:
                out.append(fakekube.Fault('status', status=item['fault']))
            return out or None
        kube.fault_fn = fault_fn

        result: dict[str, Any] = {}

        async def main() -> None:
            vault = credentials.Vault({'k': credentials.AiohttpSession(server='http://fake', aiohttp_session=client)})
            auth.vault_var.set(vault)
            view = bodies.Body(copy.deepcopy(created))
            patch = patches.Patch(body=view)
            if shape['body']:
                patch.update(copy.deepcopy(shape['body']))
            if shape['status'] is not None:
                patch['status'] = copy.deepcopy(shape['status'])
            for f in shape['fns']:
                patch.fns.append(FNS[f])
            try:
                body1, remaining = await patching.patch_obj(settings=settings, resource=resource, namespace='ns1', name='obj', patch=patch, logger=logging.getLogger('kv'))
                result['ret'] = (body1, remaining)
            except Exception as e:
                result['exc'] = e
                return
            result['state_after_first'] = kube.get('kopfexamples', 'ns1', 'obj')
            result['requests_first'] = len([r for r in kube.requests if r.kind == 'patch'])
            if remaining:
                # the next handling cycle: fresh view, the carried-forward transformations only
                kube.fault_fn = None
                fresh = bodies.Body(kube.get('kopfexamples', 'ns1', 'obj'))
                p2 = patches.Patch(remaining, body=fresh)
                try:
                    result['ret2'] = await patching.patch_obj(settings=settings, resource=resource, namespace='ns1', name='obj', patch=p2, logger=logging.getLogger('kv'))
                except Exception as e:
                    result['exc2'] = e
        try:
            loop.run_until_complete(main())
        finally:
            loop.close()
            asyncio.set_event_loop(None)
        reqs = [r for r in kube.requests if r.kind == 'patch']
        cov['enum_cases' if case['mode'] == 'enum' else 'rand_cases'] += 1
        cov['enum_slips'] += bool(slips_done)
        key = item['key'] or [shape, sub, item['slip'], item['fault_at'], item['fault'], item.get('has_status')]
        sig.update(json.dumps(key, sort_keys=True, default=str).encode())
        tag = f"shape={json.dumps(shape, default=str)} subresource={sub} status_stanza={item.get('has_status', True)} slip_before={item['slip']} fault={item['fault']}@{item['fault_at']}"
        if 'exc' in result:
            e = result['exc']
            injected = [r for r in reqs if r.fault and 'status' in r.fault]
            if injected and item['fault'] == 422 and injected[0].ctype == 'application/merge-patch+json':
                # a 422 on a merge-patch is not an optimistic-concurrency conflict; it escalates as any API error (C12's business)
                continue
            viol.append({'mech': 'patching-raised', 'msg': f'patch_obj raised {e!r} [{tag}]', 'witness': [r.brief() for r in reqs]})
            continue
        # ---------- the sequential model ----------
        S = copy.deepcopy(created)
        body_part = copy.deepcopy(shape['body']) or {}
        status_part = shape['status']
        planned: list[tuple[str, str]] = []   # (ctype, endpoint)
        if sub:
            if body_part:
                planned.append(('merge', 'main'))
            if status_part is not None:
                planned.append(('merge', 'status'))
        else:
            if body_part or status_part is not None:
                planned.append(('merge', 'main'))
        # model state
        rvs = {'fresh': int(created['metadata']['resourceVersion'])}
        server_rv = int(created['metadata']['resourceVersion'])
        k = 0
        ended = None
        carried = False
        expected_requests: list[tuple[str, str]] = []

        def do_slip(S: dict[str, Any]) -> dict[str, Any]:
            S = merge_patch(S, {'metadata': {'labels': {'slipped': str(k)}}})
            S['metadata']['finalizers'] = ['front/fin'] + list(S['metadata'].get('finalizers') or [])
            return S

        def norm(x: dict[str, Any]) -> dict[str, Any]:
            x = copy.deepcopy(x)
            for kk in ('labels', 'annotations', 'finalizers'):
                if kk in x.get('metadata', {}) and not x['metadata'][kk]:
                    del x['metadata'][kk]
            return x
        version = 0      # abstract version counter of the model: bumps on every effective write
        fresh_version = 0
        for ctype, endpoint in planned:
            k += 1
            if item['slip'] == k:
                S = do_slip(S)
                version += 1
            expected_requests.append((ctype, endpoint))
            if item['fault_at'] == k:
                ended = item['fault']
                break
            before = copy.deepcopy(S)
            if sub and endpoint == 'main':
                S = merge_patch(S, body_part)
                S['status'] = before.get('status') if 'status' in before else S.pop('status', None) or S.get('status')
                if 'status' not in before:
                    S.pop('status', None)
            elif sub and endpoint == 'status':
                S = merge_patch(S, {'status': status_part})
            else:
                full = dict(body_part)
                if status_part is not None:
                    full['status'] = status_part
                S = merge_patch(S, full)
            S = norm(S)
            if norm(before) != S:
                version += 1
            fresh_version = version
        if ended is None and shape['fns']:
            # transformations: computed on the fresh body (response of the last merge request, or the view)
            to_be = copy.deepcopy(S) if planned else copy.deepcopy(created)
            # NB: the fresh body IS the server state as of the last merge response (or the original view)
            basis = copy.deepcopy(S) if planned else copy.deepcopy(created)
            if planned:
                # a slip before the first JSON request makes the server state newer than the basis
                pass
            for f in shape['fns']:
                FNS[f](to_be)
            to_be = norm(to_be)
            basis_n = norm(basis)
            body_changed = {kk: vv for kk, vv in to_be.items() if kk != 'status'} != {kk: vv for kk, vv in basis_n.items() if kk != 'status'}
            status_changed = to_be.get('status') != basis_n.get('status')
            json_reqs: list[str] = []
            if sub:
                if body_changed:
                    json_reqs.append('main')
                if status_changed:
                    json_reqs.append('status')
            else:
                if body_changed or status_changed:
                    json_reqs.append('main')
            for endpoint in json_reqs:
                k += 1
                if item['slip'] == k:
                    S = do_slip(S)
                    version += 1
                expected_requests.append(('json', endpoint))
                if item['fault_at'] == k:
                    ended = item['fault']
                    if ended == 422:
                        carried = True
                    break
                if version != fresh_version:
                    ended = 422      # the test op fails: nothing of this request is applied
                    carried = True
                    break
                before = copy.deepcopy(S)
                if sub and endpoint == 'main':
                    for kk in list(S.keys()):
                        if kk != 'status':
                            del S[kk]
                    for kk, vv in to_be.items():
                        if kk != 'status':
                            S[kk] = copy.deepcopy(vv)
                    if 'status' in before:
                        S['status'] = before['status']
                elif sub and endpoint == 'status':
                    if 'status' in to_be:
                        S['status'] = copy.deepcopy(to_be['status'])
                    else:
                        S.pop('status', None)
                else:
                    S = copy.deepcopy(to_be)
                S = norm(S)
                if norm(before) != S:
                    version += 1
                fresh_version = version
        cov['enum_422'] += ended == 422
        cov['enum_404'] += ended == 404
        # ---------- compare: request sequence ----------
        got_requests = [('merge' if r.ctype == 'application/merge-patch+json' else 'json', 'status' if r.sub == 'status' else 'main') for r in reqs[:result.get('requests_first', len(reqs))]]
        if got_requests != expected_requests:
            viol.append({'mech': 'request-sequence', 'msg': f'requests sent {got_requests}, expected {expected_requests} [{tag}]', 'witness': [r.brief() for r in reqs]})
            continue
        body1, remaining = result['ret']
        if ended == 404:
            if body1 is not None or remaining is not None:
                viol.append({'mech': '404-not-silent', 'msg': f'after a 404 patch_obj returned {body1!r}, {remaining!r} instead of (None, None) [{tag}]', 'witness': None})
        state1 = result.get('state_after_first')
        if strip_sys(norm(state1)) != strip_sys(norm(S)):
            viol.append({'mech': 'wrong-final-state', 'msg': f'server object after patching differs from the sequential model [{tag}]',
                         'witness': {'got': strip_sys(state1), 'want': strip_sys(S), 'requests': [r.brief() for r in reqs]}})
            continue
        if carried:
            cov['carried_forward'] += 1
            if not remaining or [getattr(f, '__name__', None) for f in remaining.fns] != [FNS[f].__name__ for f in shape['fns']]:
                viol.append({'mech': 'transformation-not-carried-forward', 'msg': f'a 422 was answered but the transformations were not returned for the next cycle: {remaining!r} [{tag}]', 'witness': None})
                continue
            if dict(remaining):
                viol.append({'mech': 'merge-part-carried-forward', 'msg': f'the carried-forward patch still has merge fields {dict(remaining)!r}: they would be applied twice [{tag}]', 'witness': None})
            if 'exc2' in result:
                viol.append({'mech': 'patching-raised', 'msg': f"the second cycle raised {result['exc2']!r} [{tag}]", 'witness': None})
                continue
            # next cycle on fresh state: the effect is there exactly once
            S2 = copy.deepcopy(S)
            for f in shape['fns']:
                FNS[f](S2)
            final = kube.get('kopfexamples', 'ns1', 'obj')
            if strip_sys(norm(final)) != strip_sys(norm(S2)):
                viol.append({'mech': 'transformation-lost-or-duplicated', 'msg': f'after the carried-forward transformations were re-applied on fresh state the object differs from the model [{tag}]',
                             'witness': {'got': strip_sys(final), 'want': strip_sys(S2)}})
        elif ended is None and remaining:
            viol.append({'mech': 'spurious-remaining', 'msg': f'everything was applied but a remaining patch {remaining!r} was returned [{tag}]', 'witness': None})
        if sample is None and len(reqs) >= 3:
            sample = {'combination': tag, 'requests': [(r.method, r.path, r.ctype, r.status) for r in reqs]}
    return {'violations': viol, 'cov': cov, 'sig': sig.hexdigest()[:16], 'nontrivial': True, 'sample': sample}


# ------------------------------------------------------------------------------------------
def run_recreate(case: dict[str, Any]) -> dict[str, Any]:
    from kv import contracts
    from kv.monitors import Stall
    from kv.oracles import Index, trace_lines
    from kv.world import run_world

    contracts.install_patch_contract()
    contracts.reset()
    Stall.take_hits()
    rng = random.Random(case['seed'])
    slow = rng.choice([0.5, 2.0, 4.0])
    handlers: list[dict[str, Any]] = [
        {'kind': 'create', 'id': 'c1', 'script': [['slow', slow, ['ok', {'made_for': 'first'}]], ['slow', slow, ['ok', {'made_for': 'second'}]]]},
        {'kind': 'update', 'id': 'u1', 'script': [['slow', slow, ['ok']]]},
    ]
    if rng.random() < 0.5:
        handlers.append({'kind': 'timer', 'id': 'tm', 'opts': {'interval': 1.0}, 'script': [['slow', rng.choice([0.2, 1.5]), ['ok', {'tick': 1}]]] * 40})
    if rng.random() < 0.3:
        handlers.append({'kind': 'delete', 'id': 'd1', 'script': [['slow', rng.choice([0.5, 2.0]), ['ok']]]})
    t_del = round(1.0 + rng.uniform(0.0, slow + 1.5), 3)
    gap = rng.choice([0.0, 0.001, 0.3, 2.0])
    tl = [[0, 'start', 'op1'], [1.0, 'create', 'a', {'spec': {'x': 1}}], [t_del, 'delete', 'a'], [round(t_del + 0.0005, 4), 'force_remove', 'a'],
          [round(t_del + 0.001 + gap, 4), 'create', 'a', {'spec': {'x': 2}}]]
    if rng.random() < 0.4:
        tl.append([round(t_del + gap + rng.uniform(0.5, 3), 3), 'edit', 'a', {'spec': {'x': 3}}])
    desc = {'seed': case['seed'], 'handlers': handlers, 'timeline': tl, 'quiet': 15.0, 'horizon': 300.0, 'storage': rng.choice(['default', 'status']),
            'resources': rng.choice(['kex', 'kex_s']), 'settings': {'queueing__idle_timeout': 1.0, 'persistence__consistency_timeout': 1.0},
            'latency': rng.choice([1e-6, 0.05])}
    w = run_world(desc)
    ix = Index(w)
    viol: list[dict[str, Any]] = []
    for s in Stall.take_hits():
        viol.append({'mech': 'stall', 'msg': 'event loop stalled', 'witness': s})
    pcs = [p for p in contracts.SINK if p['k'] == 'patch_and_check' and p.get('nonempty')]
    landed_wrong = 0
    for p in pcs:
        g0, g1 = p['g'], p.get('g_end', 1 << 60)
        for r in w.requests:
            if r.kind == 'patch' and r.client == p['inc'] and r.name == p['name'] and g0 < r.g < g1 and r.landed_uid is not None and p['uid'] is not None:
                if r.landed_uid != p['uid']:
                    landed_wrong += 1
                    viol.append({'mech': 'patch-by-name-after-recreate', 'msg': f"a patch computed for {p['uid']} ({p['name']}) was applied by the server to {r.landed_uid}, a later object "
                                 f"re-using that name: {json.dumps(r.payload, default=str)[:200]}", 'witness': {'request': r.brief()}})
    sig = hashlib.sha1(json.dumps([t_del, gap, slow, [h['id'] for h in handlers]], default=str).encode()).hexdigest()[:16]
    return {'violations': viol, 'cov': {'recreate_runs': 1, 'patch_and_check_calls': len(pcs), 'landed_on_namesake': landed_wrong}, 'sig': sig, 'nontrivial': True,
            'sample': {'timeline': tl, 'handlers': [h['id'] for h in handlers]} if case['name'] == 'recreate0' else None,
            'trace': trace_lines(w) if case.get('_verbose') else None}

"""
C19 -- watch coverage and continuity: one watch per served (resource, namespace), no skipped change across reconnects / 410 / pauses / cluster changes.
"""
from __future__ import annotations

import fnmatch
import hashlib
import random
from typing import Any

ID = 'C19'
LEVEL = 'fault_enumeration'
STALL = True
TIMEOUT_PER_CASE = 180.0
TECHNIQUE = ('runtime monitoring with fault injection: the whole operator runs against the stateful fake API server whose change log is the ground truth; the server logs every '
             'list/watch request (with its resourceVersion), every event it delivered per stream, and the open/close instants of every stream; an offline checker compares them '
             'with the served (resource, namespace) pairs over time, with the versions the operator had seen before each reconnect, and with the events that reached an '
             '@on.event probe handler')
LEVEL_TEXT = ('Held on the explored histories: cluster-wide and namespace-pattern operators, namespaces and a second CRD appearing/disappearing (also in bursts), stream faults '
              '{EOF, connection reset, payload error, client/server/inactivity timeout, 410 as event and as response, unknown event type} at instants before/at/after object '
              'changes, history compaction, bookmarks, resource versions crossing a power of ten, pauses/resumes through a foreign peering record; and the fatal class: an ERROR '
              'event of an unknown code.')
LEVEL_NOTE = ('Coverage is judged at settle points (>= 1.5 s after the last disturbance; a pair whose stream was closed within the last 0.5 s is skipped there: reconnecting takes '
              'reconnect_backoff + a listing). A deletion that falls between a closed stream and the re-listing that follows (410, pause) is never noticed by kopf: known finding (the plan had read it as being by design).')
RULE = ('random histories x fault positions; non-trivial = at least one reconnect or re-listing or cluster change happened; distinct = hash of the per-pair request sequence '
        '(list / watch@rv) and stream outcomes')
ASSUMPTIONS = ['the fake API server delivers a consistent, gap-free log from the requested resourceVersion (as etcd does) or answers 410', 'namespaces are served as given by the patterns (fnmatch)']
SANITIZE_LOOP_ERRORS = True      # an exception inside an asyncio callback during the simulation is a violation here (runner.run_case_sanitized)
GATES = {'deletions_of_shown_objects': 50, 'namespaced_peering_runs': 6, 'runs': 200, 'streams': 1500, 'reconnects': 600, 'relists': 300, 'resume_checks': 600, 'gone_410': 20, 'coverage_checks': 1500, 'delivered_events': 600,
         'cluster_changes': 150, 'pauses': 15, 'digit_crossings': 10, 'fatal_error_runs': 15, 'bookmarks_seen': 30}

WIDGETS = dict(group='kopf.dev', version='v1', plural='kopfwidgets', kind='KopfWidget', namespaced=True)
HOWS = ['eof', 'conn', 'payload', 'timeout', '410', 'unknown']


def rnd_desc(rng: random.Random, i: int) -> dict[str, Any]:
    mode = rng.choice(['cluster', 'cluster', 'pattern', 'list'])
    peering = mode == 'cluster' and rng.random() < 0.35
    fatal = i % 12 == 11
    handlers = [{'kind': 'event', 'id': 'ev'}, {'kind': 'event', 'id': 'evw', 'resource': 'kopfwidgets'}]
    if rng.random() < 0.3:
        # a slow handler in flight makes the stopping of a redundant watcher take time (its workers are drained first)
        handlers.append({'kind': 'update', 'id': 'u1', 'script': [['slow', 1.5]] * 40})
    nss = ['ns1', 'ns2']
    tl: list[list[Any]] = []
    widgets_at_start = rng.random() < 0.5
    kube_kw: dict[str, Any] = {}
    if rng.random() < 0.4:
        kube_kw['rv_start'] = rng.choice([80, 90, 960, 985])
    objs: list[str] = []
    for k in range(rng.randint(1, 4)):
        n = f"{rng.choice(nss)}/o{k}"
        objs.append(n)
        tl.append([0.0, 'create', n, {'spec': {'x': 0}}])
    tl.append([0.5, 'start', 'op1'])
    t = 3.0
    paused = False
    have_w = widgets_at_start
    extra_ns: list[str] = []
    n_steps = rng.randint(5, 16)
    for k in range(n_steps):
        t = round(t + rng.choice([0.0, 0.0, 1e-6, 0.001, 0.05, 0.2, 1.0, 3.0, 3.0]), 6)
        r = rng.random()
        if r < 0.30:
            tl.append([t, 'edit', rng.choice(objs), {'spec': {'x': k + 1}}])
        elif r < 0.38:
            n = f"{rng.choice(nss + extra_ns)}/n{k}"
            objs.append(n)
            tl.append([t, 'create', n, {'spec': {'x': 0}}])
        elif r < 0.44:
            tl.append([t, 'delete', rng.choice(objs)])
        elif r < 0.66:
            tl.append([t, 'break@' + rng.choice(['kopfexamples', 'kopfexamples', 'kopfwidgets']), rng.choice(HOWS)])
        elif r < 0.72:
            tl.append([t, 'compact'])
        elif r < 0.77:
            tl.append([t, 'bookmark'])
        elif r < 0.84 and mode != 'cluster':
            # cluster changes often come in bursts: the second one lands while the first one is still being acted upon
            tt = t
            touched: set[str] = set()      # a namespace cannot vanish and reappear within a moment in reality (it is 'Terminating' for a while)
            for burst in range(rng.choice([1, 1, 2, 3])):
                cand = [x for x in extra_ns if x not in touched]
                if cand and rng.random() < 0.5:
                    gone = rng.choice(cand)
                    extra_ns.remove(gone)
                    touched.add(gone)
                    # often together with the end of a stream: the watcher of the vanishing namespace is between two requests when it is told to stop
                    brk = [tt, 'break@kopfexamples', rng.choice(['410', 'eof', 'timeout', 'conn'])] if rng.random() < 0.6 else None
                    if brk and rng.random() < 0.5:
                        tl.append(brk)
                    tl.append([tt, 'ns_del', gone])
                    if brk and brk not in tl:
                        tl.append(brk)
                else:
                    pool = [x for x in (['ns3', 'ns4', 'ns5', 'nsx'] if mode == 'pattern' else ['ns3', 'ns4']) if x not in extra_ns and x not in touched]
                    if pool:
                        nn = rng.choice(pool)
                        extra_ns.append(nn)
                        touched.add(nn)
                        tl.append([tt, 'ns_add', nn])
                        if rng.random() < 0.5:
                            nm = f"{nn}/b{k}"
                            objs.append(nm)
                            tl.append([round(tt + 0.3, 6), 'create', nm, {'spec': {'x': 0}}])
                tt = round(tt + rng.choice([0.0, 1e-6, 0.001, 0.05, 0.5, 1.0]), 6)
        elif r < 0.90:
            if have_w:
                tl.append([t, 'crd_del', 'kopfwidgets'])
            else:
                tl.append([t, 'crd_add', WIDGETS])
            have_w = not have_w
        elif r < 0.95 and have_w:
            tl.append([t, 'create@kopfwidgets', f"{rng.choice(nss)}/w{k}", {'spec': {'x': 0}}])
        elif peering:
            tl.append([t, 'unpeer', 'boss'] if paused else [t, 'peer', 'boss', 100, rng.choice([4, 60])])
            paused = not paused
    if fatal:
        t = round(t + 3.0, 6)
        if paused:
            tl.append([t, 'unpeer', 'boss'])
            t = round(t + 3.0, 6)
        tl.append([t, 'break', 'error'])
        tl.append([round(t + 1.0, 6), 'edit', objs[0], {'spec': {'x': 777}}])
    tl.sort(key=lambda x: x[0])
    settings: dict[str, Any] = {'queueing__idle_timeout': 1.0, 'watching__reconnect_backoff': 0.1}
    if rng.random() < 0.3:
        settings['watching__server_timeout'] = rng.choice([2.0, 5.0])
    if rng.random() < 0.3:
        settings['watching__client_timeout'] = rng.choice([3.0, 7.0])
    if rng.random() < 0.2:
        settings['watching__inactivity_timeout'] = rng.choice([2.5, 6.0])
    opkw: dict[str, Any] = {}
    if mode == 'pattern':
        opkw['namespaces'] = ['ns*']
    elif mode == 'list':
        opkw['namespaces'] = ['ns1', 'ns3']
    desc: dict[str, Any] = {'seed': rng.randrange(1 << 30), 'handlers': handlers, 'timeline': tl, 'quiet': 6.0, 'horizon': 300.0, 'latency': 0.001, 'namespaces': nss,
                            'settings': settings, 'operator_kwargs': opkw, 'extra_resources': [WIDGETS] if widgets_at_start else [], 'kube': kube_kw, 'end': 'stop', 'exit_wait': 60.0,
                            'mode': mode, 'fatal': fatal, 'post_yields': rng.choice([0, 0, 1, 2, 3, 5, 8, 13]), 'lag': {'values': [0.0, 0.0, 0.002]} if rng.random() < 0.3 else None}
    if peering:
        desc['peering'] = {'name': 'default'}
    return desc


def directed() -> list[dict[str, Any]]:
    """
    A served namespace disappears at the very instant its watcher is (a) between two watch requests or (b) handing an event over to a worker,
    for every phase shift between the watcher and the orchestrator (post_yields): the two places where a cancellation used to be lost / a stream left open.
    """
    out: list[dict[str, Any]] = []
    k = 0
    for yields in (0, 1, 2, 3, 5, 8, 13):
        for first in ('event', 'nsdel'):
            for what in ('410', 'eof', 'timeout', 'conn', 'edit', 'edit+eof', 'compact+eof'):
                for t_gap in (0.05, 2.0):
                    k += 1
                    t1 = 6.0
                    tl: list[list[Any]] = [[0.0, 'create', 'ns1/o0', {'spec': {'x': 0}}], [0.5, 'start', 'op1'], [3.0, 'ns_add', 'ns3'], [3.3, 'create', 'ns3/b0', {'spec': {'x': 0}}],
                                           [round(t1 - t_gap, 3), 'edit', 'ns3/b0', {'spec': {'x': 1}}]]
                    ev: list[list[Any]] = []
                    if 'edit' in what:
                        ev.append([t1, 'edit', 'ns3/b0', {'spec': {'x': 2}}])
                    if what == 'compact+eof':
                        ev.append([t1, 'compact'])          # the re-connection gets '410 Gone' with its response, i.e. one request latency later
                    if what != 'edit':
                        ev.append([t1, 'break@kopfexamples', what.split('+')[-1]])
                    nd = [[round(t1 + (0.001 if what == 'compact+eof' else 0.0), 6), 'ns_del', 'ns3']]
                    tl += (ev + nd) if first == 'event' else (nd + ev)
                    tl += [[9.0, 'edit', 'ns1/o0', {'spec': {'x': 5}}], [12.0, 'ns_add', 'ns4'], [15.0, 'edit', 'ns1/o0', {'spec': {'x': 6}}]]
                    out.append({'name': f'dir{k}', 'desc': {'seed': k, 'handlers': [{'kind': 'event', 'id': 'ev'}, {'kind': 'event', 'id': 'evw', 'resource': 'kopfwidgets'}], 'timeline': tl,
                                                            'quiet': 6.0, 'horizon': 300.0, 'latency': 0.001, 'namespaces': ['ns1', 'ns2'],
                                                            'settings': {'queueing__idle_timeout': 1.0, 'watching__reconnect_backoff': 0.1}, 'operator_kwargs': {'namespaces': ['ns*']},
                                                            'extra_resources': [], 'kube': {}, 'end': 'stop', 'exit_wait': 60.0, 'mode': 'pattern', 'fatal': False, 'post_yields': yields, 'lag': None}})
    # a second cluster change arrives while the orchestrator is still busy with the first one (draining the watcher of a removed namespace
    # whose worker has a slow handler in flight): the notification must not be lost
    for yields in (0, 2, 5):
        for second in (['ns_add', 'ns4'], ['ns_del', 'ns2']):
            for gap in (0.0, 0.001, 0.1, 0.5, 0.9):
                k += 1
                tl = [[0.0, 'create', 'ns1/o0', {'spec': {'x': 0}}], [0.0, 'create', 'ns2/o1', {'spec': {'x': 0}}], [0.5, 'start', 'op1'], [3.0, 'ns_add', 'ns3'],
                      [3.3, 'create', 'ns3/b0', {'spec': {'x': 0}}], [5.5, 'edit', 'ns3/b0', {'spec': {'x': 1}}], [6.0, 'ns_del', 'ns3'], [round(6.0 + gap, 3), *second],
                      [12.0, 'edit', 'ns1/o0', {'spec': {'x': 5}}], [16.0, 'edit', 'ns1/o0', {'spec': {'x': 6}}]]
                out.append({'name': f'dirb{k}', 'desc': {'seed': k, 'handlers': [{'kind': 'event', 'id': 'ev'}, {'kind': 'event', 'id': 'evw', 'resource': 'kopfwidgets'},
                                                                                 {'kind': 'update', 'id': 'u1', 'script': [['slow', 1.5]] * 40}], 'timeline': tl,
                                                         'quiet': 6.0, 'horizon': 300.0, 'latency': 0.001, 'namespaces': ['ns1', 'ns2'],
                                                         'settings': {'queueing__idle_timeout': 1.0, 'watching__reconnect_backoff': 0.1}, 'operator_kwargs': {'namespaces': ['ns*']},
                                                         'extra_resources': [], 'kube': {}, 'end': 'stop', 'exit_wait': 60.0, 'mode': 'pattern', 'fatal': False, 'post_yields': yields, 'lag': None}})
    # a stream ends at the very instant the operator pauses (a higher-priority peer appears)
    for yields in (0, 1, 2, 3, 5, 8, 13):
        for first in ('event', 'peer'):
            for how in ('payload', 'eof', 'conn', 'timeout', '410'):
                k += 1
                ev = [[6.0, 'break@kopfexamples', how]]
                pr = [[6.0, 'peer', 'boss', 100, 4]]
                tl = [[0.0, 'create', 'ns1/o0', {'spec': {'x': 0}}], [0.5, 'start', 'op1']] + ((ev + pr) if first == 'event' else (pr + ev)) + \
                     [[8.0, 'edit', 'ns1/o0', {'spec': {'x': 3}}], [16.0, 'edit', 'ns1/o0', {'spec': {'x': 4}}]]
                out.append({'name': f'dirp{k}', 'desc': {'seed': k, 'handlers': [{'kind': 'event', 'id': 'ev'}, {'kind': 'event', 'id': 'evw', 'resource': 'kopfwidgets'}], 'timeline': tl,
                                                         'quiet': 6.0, 'horizon': 300.0, 'latency': 0.001, 'namespaces': ['ns1', 'ns2'], 'peering': {'name': 'default'},
                                                         'settings': {'queueing__idle_timeout': 1.0, 'watching__reconnect_backoff': 0.1}, 'operator_kwargs': {},
                                                         'extra_resources': [], 'kube': {}, 'end': 'stop', 'exit_wait': 60.0, 'mode': 'cluster', 'fatal': False, 'post_yields': yields, 'lag': None}})
    # the next change of an object arrives at the very instant its idle per-object worker retires (idle_timeout after its previous event): it still
    # reaches processing -- for every phase shift between the stream reader and the worker's timer, and one microsecond to either side
    for yields in (0, 1, 2, 3, 5, 8):
        for idle in (1.0, 0.5):
            for eps in (-0.000001, 0.0, 0.000001):
                for lat in (0.001, 0.25):
                    # lat = the delivery lag of the watch events here: with a lag the release of the event is a TIMER of the same instant as the worker's
                    # idle timeout (both count from the release of the previous event), which is how the two meet inside one loop iteration
                    k += 1
                    t1 = 6.0
                    tl = [[0.0, 'create', 'ns1/o0', {'spec': {'x': 0}}], [0.5, 'start', 'op1'], [t1, 'edit', 'ns1/o0', {'spec': {'x': 1}}],
                          [round(t1 + idle + eps, 6), 'edit', 'ns1/o0', {'spec': {'x': 2}}], [round(t1 + 2 * idle + eps, 6), 'edit', 'ns1/o0', {'spec': {'x': 3}}]]
                    out.append({'name': f'diri{k}', 'desc': {'seed': k, 'handlers': [{'kind': 'event', 'id': 'ev'}, {'kind': 'event', 'id': 'evw', 'resource': 'kopfwidgets'}], 'timeline': tl,
                                                             'quiet': 6.0, 'horizon': 300.0, 'latency': 0.001, 'namespaces': ['ns1', 'ns2'],
                                                             'settings': {'queueing__idle_timeout': idle, 'watching__reconnect_backoff': 0.1}, 'operator_kwargs': {'namespaces': ['ns*']},
                                                             'extra_resources': [], 'kube': {}, 'end': 'stop', 'exit_wait': 60.0, 'mode': 'pattern', 'fatal': False, 'post_yields': yields,
                                                             'lag': {'values': [lat]}}})
    # peering per namespace: the operator is paused through the peering object of ONE of its namespaces, and that namespace disappears while it is paused --
    # nothing blocks it any more: watching restarts with a fresh listing of the pairs that are left, later changes reach processing
    for yields in (0, 2):
        for t_del in (9.0, 12.0):
            for how in ('ns_del', 'unpeer', 'expire'):
                k += 1
                life = 4 if how == 'expire' else 600
                tl = [[0.0, 'create', 'ns1/o0', {'spec': {'x': 0}}], [0.0, 'create', 'ns2/o1', {'spec': {'x': 0}}], [0.5, 'start', 'op1'],
                      [6.0, 'peer', 'boss', 100, life, None, 'ns2']]
                if how == 'ns_del':
                    tl.append([t_del, 'ns_del', 'ns2'])
                elif how == 'unpeer':
                    tl.append([t_del, 'unpeer', 'boss', 'ns2'])
                tl += [[20.0, 'edit', 'ns1/o0', {'spec': {'x': 7}}]]
                out.append({'name': f'dirq{k}-{how}', 'desc': {'seed': k, 'handlers': [{'kind': 'event', 'id': 'ev'}, {'kind': 'event', 'id': 'evw', 'resource': 'kopfwidgets'}], 'timeline': tl,
                                                               'quiet': 8.0, 'horizon': 300.0, 'latency': 0.001, 'namespaces': ['ns1', 'ns2'], 'peering': {'name': 'default', 'namespaced': True},
                                                               'settings': {'queueing__idle_timeout': 1.0, 'watching__reconnect_backoff': 0.1}, 'operator_kwargs': {'namespaces': ['ns*']},
                                                               'extra_resources': [], 'kube': {}, 'end': 'stop', 'exit_wait': 60.0, 'mode': 'pattern', 'fatal': False, 'post_yields': yields, 'lag': None,
                                                               'ns_peering_case': {'blocked_from': 6.0, 'free_from': t_del if how != 'expire' else 10.0, 'probe_x': 7, 'how': how}}})
    return out


def gen_cases(tier: str, seed: int):
    rng = random.Random(f'C19-{seed}')
    n = 300 if tier == 'quick' else 8000
    return directed() + [{'name': f'rnd{i}', 'desc': rnd_desc(rng, i)} for i in range(n)]


def run_case(case: dict[str, Any]) -> dict[str, Any]:
    from kv.monitors import Stall
    from kv.oracles import Index, trace_lines
    from kv.world import run_world

    Stall.take_hits()
    desc = case['desc']
    w = run_world(desc)
    ix = Index(w)
    viol: list[dict[str, Any]] = []
    cov = {k: 0 for k in GATES}
    cov['runs'] = 1
    for s in Stall.take_hits():
        viol.append({'mech': 'stall', 'msg': 'event loop stalled', 'witness': s})
    inc = 'op1'
    incobj = w.incs[inc]
    kube = w.sim.kube
    if desc.get('ns_peering_case'):
        # Peering per namespace. The pause is not read off the toggle probe here (a toggle that is DROPPED with its namespace is never turned off): the expectation
        # comes from the scenario -- blocked while a live higher-priority record sits in the peering object of an existing served namespace, free afterwards.
        pc = desc['ns_peering_case']
        t0, t1 = pc['blocked_from'], pc['free_from']
        ex = [s_ for s_ in kube.streams if s_.client.name == inc and s_.plural == 'kopfexamples' and s_.ns == 'ns1']
        cov['namespaced_peering_runs'] = 1
        open_while_blocked = [s_ for s_ in ex if s_.opened < t1 - 0.5 and (s_.closed_at is None or s_.closed_at > t0 + 1.5) and s_.opened > t0 + 1.5]
        if not any(s_.closed_at is not None and t0 <= s_.closed_at <= t0 + 1.5 for s_ in ex):
            viol.append({'mech': 'watching-while-paused', 'msg': f"a peer of higher priority appeared in ns2's peering object at t={t0}: the watch of (kopfexamples, ns1) was not closed within 1.5s", 'witness': None})
        if open_while_blocked:
            viol.append({'mech': 'watching-while-paused', 'msg': f"(kopfexamples, ns1) was watched anew at t={open_while_blocked[0].opened} while the operator had to be paused ({t0}..{t1})", 'witness': None})
        lists_after = [r for r in w.requests if r.client == inc and r.kind == 'list' and r.plural == 'kopfexamples' and r.ns == 'ns1' and r.t >= t1 - 1e-6]
        open_after = [s_ for s_ in ex if s_.opened >= t1 - 1e-6]
        probe = [c for c in ix.calls if c['inc'] == inc and c['h'] == 'ev' and (c.get('spec') or {}).get('x') == pc['probe_x']]
        bound = t1 + (6.0 if pc['how'] == 'expire' else 3.0)
        if not lists_after or not open_after or open_after[0].opened > bound or (lists_after and lists_after[0].t > open_after[0].opened + 1e-6):
            viol.append({'mech': 'not-resumed-after-blocker-gone', 'msg': f"nothing blocks the operator from t={t1} on ({pc['how']}): a fresh listing and a watch of (kopfexamples, ns1) are expected by t={bound}; "
                                                                          f"listings at {[round(r.t, 3) for r in lists_after][:3]}, watches opened at {[round(s_.opened, 3) for s_ in open_after][:3]}", 'witness': None})
        if not probe:
            viol.append({'mech': 'change-never-reached-processing', 'msg': f"the edit of ns1/o0 (x={pc['probe_x']}) made after the pause had to end never reached the event handler", 'witness': None})
        if incobj.exc is not None:
            viol.append({'mech': 'operator-crashed', 'msg': f'kopf.operator() raised {incobj.exc!r}', 'witness': None})
        return {'violations': viol, 'cov': cov, 'sig': hashlib.sha1(repr((case['name'], [round(s_.opened, 3) for s_ in ex])).encode()).hexdigest()[:16], 'nontrivial': True, 'sample': None,
                'trace': trace_lines(w) if case.get('_verbose') else None}
    kinds = ['kopfexamples', 'kopfwidgets']
    mode = desc['mode']
    patterns = (desc.get('operator_kwargs') or {}).get('namespaces')
    t_stop = incobj.t_stop_requested if incobj.t_stop_requested is not None else float('inf')
    t_end = incobj.t_end if incobj.t_end is not None else float('inf')
    toggles = [(e['t'], e['to']) for e in w.events if e['k'] == 'note' and e.get('what') == 'toggle' and e.get('inc') == inc and str(e.get('name')).startswith('default@')]

    pause_spans: list[tuple[float, float]] = []
    for k0, (tt0, to0) in enumerate(toggles):
        if to0:
            pause_spans.append((tt0, next((tt for tt, x in toggles[k0 + 1:] if not x), float('inf'))))

    def paused_at(t: float) -> bool:
        st = bool(desc.get('peering'))
        for tt, to in toggles:
            if tt <= t:
                st = to
        return st

    # ---- the cluster's shape over time, from the timeline --------------------------------------------------------------------
    ns_events: list[tuple[float, str, bool]] = [(0.0, n, True) for n in desc['namespaces']]
    crd_events: list[tuple[float, str, bool]] = [(0.0, 'kopfexamples', True)] + ([(0.0, 'kopfwidgets', True)] if desc.get('extra_resources') else [])
    disturb: list[float] = [0.5]
    for op in desc['timeline']:
        kind = op[1].split('@')[0]
        if kind == 'ns_add':
            ns_events.append((op[0], op[2], True))
        elif kind == 'ns_del':
            ns_events.append((op[0], op[2], False))
        elif kind == 'crd_add':
            crd_events.append((op[0], op[2]['plural'], True))
        elif kind == 'crd_del':
            crd_events.append((op[0], op[2], False))
        if kind in ('ns_add', 'ns_del', 'crd_add', 'crd_del', 'break', 'compact', 'peer', 'unpeer', 'start'):
            disturb.append(op[0])
            if kind in ('ns_add', 'ns_del', 'crd_add', 'crd_del'):
                cov['cluster_changes'] += 1
    disturb += [tt for tt, _ in toggles]
    cov['pauses'] = sum(1 for _, to in toggles if to)

    def alive(evs: list[tuple[float, str, bool]], name: str, t: float) -> bool:
        st = False
        for tt, n, on in evs:
            if n == name and tt <= t:
                st = on
        return st

    def expected_pairs(t: float) -> set[tuple[str, str | None]]:
        if paused_at(t):
            return set()
        res = [k for k in kinds if alive(crd_events, k, t)]
        if mode == 'cluster':
            return {(k, None) for k in res}
        names = {n for _, n, _ in ns_events if alive(ns_events, n, t)}
        served = {n for n in names if any(fnmatch.fnmatch(n, p) for p in patterns)}
        return {(k, n) for k in res for n in served}

    streams = [s for s in kube.streams if s.client.name == inc and s.plural in kinds]
    cov['streams'] = len(streams)
    by_pair: dict[tuple[str, str | None], list[Any]] = {}
    for s in streams:
        by_pair.setdefault((s.plural, s.ns), []).append(s)

    # ---- W1: exactly one watch per served pair, none for anything else -----------------------------------------------------------
    for pair, ss in by_pair.items():
        ss.sort(key=lambda s: s.opened)
        for a, b in zip(ss, ss[1:]):
            a_end = a.closed_at if a.closed_at is not None else float('inf')
            if b.opened < a_end - 1e-9 and b.opened < t_end:
                viol.append({'mech': 'duplicate-watch', 'msg': f"two watch streams for {pair} are open at once: opened at t={a.opened} (closed {a.closed_at}) and at t={b.opened}", 'witness': None})
                break
    fatal_t = next((op[0] for op in desc['timeline'] if op[1].split('@')[0] == 'break' and op[2] == 'error'), None)
    settle_pts = sorted({round(op[0] - 1e-4, 6) for op in desc['timeline'] if op[0] > 2.5} | ({round(t_stop - 1e-4, 6)} if t_stop < float('inf') else set()))
    for T in settle_pts:
        if T >= min(t_stop, t_end) or any(T - 1.5 < d <= T for d in disturb) or (fatal_t is not None and T > fatal_t):
            continue
        exp = expected_pairs(T)
        open_now: dict[tuple[str, str | None], int] = {}
        for s in streams:
            if s.opened <= T and (s.closed_at is None or s.closed_at > T):
                open_now[(s.plural, s.ns)] = open_now.get((s.plural, s.ns), 0) + 1
        for pair in exp:
            if any(s.closed_at is not None and T - 0.5 < s.closed_at <= T for s in by_pair.get(pair, [])):
                continue     # reconnecting right now
            cov['coverage_checks'] += 1
            if open_now.get(pair, 0) != 1:
                viol.append({'mech': 'served-pair-not-watched' if open_now.get(pair, 0) == 0 else 'duplicate-watch',
                             'msg': f"at t={T} the pair {pair} is served (mode {mode}, patterns {patterns}) and the operator is not paused, yet {open_now.get(pair, 0)} watch streams are open for it "
                                    f"(last disturbance at t={max(d for d in disturb if d <= T)})", 'witness': {'open': {str(k): v for k, v in open_now.items()}}})
                break
        for pair, n in open_now.items():
            cov['coverage_checks'] += 1
            if pair not in exp:
                why = 'the operator is paused' if paused_at(T) else 'it is not served'
                viol.append({'mech': 'watch-for-unserved-pair', 'msg': f"at t={T} a watch stream is open for {pair} although {why} (served: {sorted(map(str, exp))})", 'witness': None})
                break

    # ---- W2: resumed from the latest version seen; re-listed after 410 and after a pause -------------------------------------------
    sig_parts: list[str] = []
    reqs = [r for r in w.requests if r.client == inc and r.kind in ('list', 'watch') and r.plural in kinds]
    stream_of_req: dict[int, Any] = {}
    for pair, ss in by_pair.items():
        rs = [r for r in reqs if r.kind == 'watch' and (r.plural, r.ns) == pair and r.status == 200]
        for r, s in zip(rs, ss):
            stream_of_req[r.idx] = s
    for pair in sorted({(r.plural, r.ns) for r in reqs}, key=str):
        known: int | None = None
        must_list = True
        why_list = 'first contact'
        prev_t = 0.0
        for r in [r for r in reqs if (r.plural, r.ns) == pair]:
            # a pause in between invalidates what is known: watching restarts with a fresh listing
            if any(prev_t <= tp <= tr <= r.t and tr - tp >= 0.5 for tp, tr in pause_spans):
                must_list, why_list = True, 'a pause'       # paused (for real: a pause of zero length stops nothing) and resumed in between
            prev_t = r.t
            if r.kind == 'list':
                sig_parts.append('L')
                if r.status == 200 and r.result_rv is not None:
                    known = int(r.result_rv)
                    must_list = False
                    cov['relists'] += 1
                continue
            rv_s = (r.query or {}).get('resourceVersion')
            sig_parts.append(f'W{rv_s}')
            cov['reconnects'] += 1
            if must_list:
                viol.append({'mech': 'watch-without-fresh-listing', 'msg': f"{pair}: watch request at t={r.t} (resourceVersion={rv_s}) after {why_list} without a listing before it", 'witness': None})
                break
            cov['resume_checks'] += 1
            if rv_s is None or not str(rv_s).isdigit() or int(rv_s) != known:
                newer = [v for vs in w.history.values() for v in vs if v['plural'] == pair[0] and (pair[1] is None or v['body']['metadata'].get('namespace') == pair[1])
                         and known is not None and rv_s is not None and str(rv_s).isdigit() and known < v['rv'] <= int(rv_s)]
                mech = 'resumed-from-version-that-skips-changes' if newer else 'resumed-from-older-version' if (rv_s is not None and str(rv_s).isdigit() and known is not None and int(rv_s) < known) else 'resumed-from-unknown-version'
                viol.append({'mech': mech, 'msg': f"{pair}: watch request at t={r.t} asks for resourceVersion={rv_s}; the latest version the operator had seen for this pair is {known}"
                                                  + (f"; {len(newer)} change(s) lie in between" if newer else ''), 'witness': None})
                break
            s = stream_of_req.get(r.idx)
            if s is None:
                if r.status == 410 or r.status is None:
                    must_list, why_list = True, 'a 410'
                continue
            # what the client has actually read off the wire (an event still in flight when the client hung up is not 'seen')
            for typ, uid, rv, code in s.resp.fed[:s.resp.consumed]:
                if typ == 'ERROR' and code == 410:
                    must_list, why_list = True, 'a 410 Gone'
                    cov['gone_410'] += 1
                elif typ in ('ADDED', 'MODIFIED', 'DELETED', 'BOOKMARK') and rv is not None and str(rv).isdigit():
                    if typ == 'BOOKMARK':
                        cov['bookmarks_seen'] += 1
                    if known is not None and len(str(rv)) > len(str(known)):
                        cov['digit_crossings'] += 1
                    known = int(rv)
        else:
            continue
        break
    # the 410 sent as an in-stream ERROR event by a break (not logged as ERROR410 by the server's own compaction path)
    # is covered by the same rule through 'break@... 410' -> see fakekube.break_streams: it feeds the ERROR and closes the stream.

    # ---- W3: every delivered event reaches processing ---------------------------------------------------------------------------------
    seen = {(c['uid'], str(c['rv']), c.get('etype')) for c in ix.calls if c['inc'] == inc and c['kind'] == 'event'}
    for s in streams:
        for t, typ, uid, rv in s.delivered:
            if typ not in ('ADDED', 'MODIFIED', 'DELETED') or uid is None:
                continue
            if t > min(t_stop, t_end) - 0.5 or (s.closed_at is not None and t >= s.closed_at - 1e-9):
                continue
            if any(to and t - 1e-9 <= tt <= t + 0.5 for tt, to in toggles) or (fatal_t is not None and t >= fatal_t - 1e-9):
                continue
            t_term = next((tc for tc in sorted(x[0] for x in ns_events + crd_events) if tc >= t - 1e-9 and (s.plural, s.ns) not in expected_pairs(tc + 0.001)), None)
            if t_term is not None and t > t_term - 5.0:
                continue       # the pair ceased to be served (namespace/CRD gone): its watcher is terminated, its workers are drained for 2 s only
            cov['delivered_events'] += 1
            if (uid, str(rv), typ) not in seen:
                viol.append({'mech': 'delivered-event-not-processed', 'msg': f"{(s.plural, s.ns)}: the {typ} event of {uid} rv={rv} was delivered at t={t} but never reached the event handler", 'witness': None})
                break
        else:
            continue
        break
    # the final state of every live object of a served pair has been seen
    if fatal_t is None and t_stop < float('inf') and not paused_at(t_stop - 1e-4):
        exp = expected_pairs(t_stop - 1e-4)
        for uid, vs in w.history.items():
            last = vs[-1]
            if last['plural'] not in kinds or last['type'] == 'DELETED' or last['t'] > t_stop - 1.0:
                continue
            ns = last['body']['metadata'].get('namespace')
            cur = kube.objs.get((last['plural'], ns, last['body']['metadata'].get('name')))
            if cur is None or cur['metadata'].get('uid') != uid:
                continue       # gone with its CRD or namespace (no DELETED event is due for that)
            if (last['plural'], None) in exp or (last['plural'], ns) in exp:
                if not any(u == uid and r == str(last['rv']) for u, r, _ in seen):
                    viol.append({'mech': 'change-never-reached-processing', 'msg': f"{last['plural']} {ns}/{last['body']['metadata']['name']} ({uid}): its latest version rv={last['rv']} (written t={last['t']}) "
                                                                                  f"was never seen by the event handler (seen versions: {sorted(r for u, r, _ in seen if u == uid)})", 'witness': None})
                    break

    # ... and so has the disappearance of every object the operator had been shown (a deletion is an object change too)
    if fatal_t is None and t_stop < float('inf') and not paused_at(t_stop - 1e-4):
        exp = expected_pairs(t_stop - 1e-4)
        for uid, vs in w.history.items():
            last = vs[-1]
            if last['plural'] not in kinds or last['type'] != 'DELETED' or last['t'] > t_stop - 3.0:
                continue
            ns = last['body']['metadata'].get('namespace')
            if not ((last['plural'], None) in exp or (last['plural'], ns) in exp):
                continue
            if ns is not None and any(x[0] <= last['t'] + 1e-9 and x[0] >= last['t'] - 1e-9 for x in ns_events + crd_events):
                continue       # gone together with its namespace or CRD
            shown = [c for c in ix.calls if c['inc'] == inc and c['kind'] == 'event' and c['uid'] == uid and c['t'] < last['t']]
            if not shown:
                continue
            cov['deletions_of_shown_objects'] += 1
            if not any(u == uid and e == 'DELETED' for u, _, e in seen):
                # the one known way: no stream was open for the pair at that instant, and watching went on with a fresh listing (which cannot name the gone)
                pair_reqs = [r for r in reqs if r.plural == last['plural'] and r.ns in (None, ns)]
                covered = any(x.plural == last['plural'] and x.ns in (None, ns) and x.opened <= last['t'] and (x.closed_at is None or x.closed_at > last['t']) for x in streams)
                nxt = next((r for r in pair_reqs if r.t >= last['t'] - 1e-9), None)
                # ... or a stream was open, but it broke (410, disconnect) before the client could read the DELETED line off the wire, and watching
                # went on with a fresh listing: to the operator that is the same situation -- the deletion fell into a gap that a listing cannot show
                read = any(typ == 'DELETED' and u == uid for x in streams if x.plural == last['plural'] for typ, u, _, _ in x.resp.fed[:x.resp.consumed])
                # (a watch request that is answered '410 Gone' at once may come between the break and the re-listing: what matters is that the line was never
                # read and that the pair WAS listed afresh afterwards -- a watch resumed from a version beyond the deletion, with no listing, stays a violation)
                gap = not read and any(r.kind == 'list' and (r.t_done if r.t_done is not None else r.t) >= last['t'] - 1e-9 and r.status == 200 for r in pair_reqs)      # (answered, not sent: the deletion may land while the listing is on its way)
                mech = 'deletion-missed-across-relisting' if ((not covered and nxt is not None and nxt.kind == 'list') or gap) else 'deletion-never-reached-processing'
                viol.append({'mech': mech, 'msg': f"{last['plural']} {ns}/{last['body']['metadata']['name']} ({uid}), shown to the operator at "
                                                  f"t={shown[0]['t']}, was deleted at t={last['t']}: no DELETED event ever reached the event handler"
                                                  + (f"; no watch was open then, and watching went on with the listing at t={nxt.t}" if mech.startswith('deletion-missed') else ''), 'witness': None})
                break

    # ---- W4: while paused nothing is listed or watched -----------------------------------------------------------------------------------
    for k, (tp, to) in enumerate(toggles):
        if not to:
            continue
        tr = next((tt for tt, x in toggles[k + 1:] if not x), min(t_stop, t_end))
        late = [r for r in reqs if tp + 0.2 < r.t < tr - 1e-9]
        if late:
            viol.append({'mech': 'request-while-paused', 'msg': f"paused during [{tp}, {tr}], yet a {late[0].kind} request for {late[0].plural} was sent at t={late[0].t}", 'witness': None})
            break
        still = [s for s in streams if s.opened <= tp and (s.closed_at is None or s.closed_at > tp + 0.2) and tr - tp > 0.3]
        if still:
            viol.append({'mech': 'watch-open-while-paused', 'msg': f"paused at t={tp} (till {tr}), yet the watch stream for {(still[0].plural, still[0].ns)} stayed open until {still[0].closed_at}", 'witness': None})
            break

    # ---- W5: an ERROR event of an unknown code is fatal, never skipped --------------------------------------------------------------------
    if fatal_t is not None:
        cov['fatal_error_runs'] = 1
        hit = [s for s in streams if s.plural == 'kopfexamples' and any(typ == 'ERROR' and code == 500 for typ, _, _, code in s.resp.fed[:s.resp.consumed])]     # the client has read it
        if hit and fatal_t < t_stop:
            ended = incobj.t_end is not None and incobj.t_end <= fatal_t + 30.0 and incobj.t_end < t_stop - 1e-9
            rewatched = [s for s in streams if s.plural == 'kopfexamples' and s.opened > fatal_t]
            if ended and incobj.exc is None:
                viol.append({'mech': 'fatal-watch-error-swallowed', 'msg': f"an ERROR event (code 500) was sent in the watch stream at t={fatal_t}; the operator exited at t={incobj.t_end} without raising", 'witness': None})
            elif not ended and not rewatched:
                viol.append({'mech': 'watch-lost-silently', 'msg': f"an ERROR event (code 500) was sent in the watch stream of kopfexamples at t={fatal_t}: the operator neither stopped nor re-established the watch; "
                                                                   f"it kept running without watching the resource until the stop request at t={t_stop}", 'witness': None})
            elif not ended:
                viol.append({'mech': 'unknown-error-event-skipped', 'msg': f"an ERROR event (code 500) was sent in the watch stream of kopfexamples at t={fatal_t}: the operator carried on as if nothing had happened "
                                                                           f"(watching again from t={rewatched[0].opened}) instead of failing", 'witness': None})
    elif incobj.exc is not None or (incobj.t_end is not None and incobj.t_stop_requested is None):
        viol.append({'mech': 'operator-crashed', 'msg': f"kopf.operator() ended at t={incobj.t_end} (exc={incobj.exc!r}) without a fatal fault being injected", 'witness': None})

    sig = hashlib.sha1(''.join(sig_parts).encode()).hexdigest()[:16]
    nontrivial = cov['reconnects'] > len(by_pair) or cov['cluster_changes'] > 0
    sample = None
    if case['name'] == 'rnd0':
        sample = {'mode': mode, 'timeline': desc['timeline'][:10], 'request_sequence': ' '.join(sig_parts)[:400]}
    return {'violations': viol, 'cov': cov, 'sig': sig, 'nontrivial': nontrivial, 'sample': sample, 'trace': trace_lines(w) if case.get('_verbose') else None}

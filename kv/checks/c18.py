"""
C18 -- admission responses faithfully reflect handler outcomes and requested mutations.

Real serve_admission_request with generated reviews and 1-4 scripted webhook handlers registered through the real
decorators. The returned JSON patch is applied with an independent RFC 6902 applier and compared with an independent
RFC 7386 merge of the requested field edits followed by the transformation functions.
"""
from __future__ import annotations

import asyncio
import base64
import copy
import hashlib
import json
import random
from typing import Any

ID = 'C18'
LEVEL = 'exploration'
STALL = False
TIMEOUT_PER_CASE = 120.0
TECHNIQUE = ('runtime monitoring: reference-model oracle (independent RFC 7386 merge and RFC 6902 applier, error-specificity ranking, selection rules) '
             'on the real serve_admission_request driven with generated admission reviews and scripted webhook handlers')
LEVEL_TEXT = ('Held on the generated reviews: operations x subresources x dry-run x old/new objects, 1-4 validating/mutating handlers with outcomes '
              '{ok, AdmissionError(+subclass), PermanentError(+subclass), TemporaryError(+subclass), arbitrary}, warnings, merge-style edits (set, overwrite, '
              'delete, nested merge, type changes scalar<->mapping<->list, special characters in keys) and transformation functions, with and without '
              'webhook-id/type hints. The space of objects and edits is unbounded, hence exploration.')
LEVEL_NOTE = ('Equality of patched objects is modulo presence of empty mappings (as the property states). Without a webhook-id hint the framework does not '
              're-check the declared operations (Kubernetes does via the webhook configuration): no expectation is generated for that combination.')
RULE = ("each case = one review x one handler set; non-trivial = at least one handler mutates or raises; distinct = hash of (review, handler scripts)")
ASSUMPTIONS = ["independent RFC 7386/6902 implementations in kv/fakekube.py", "handlers are executed in registration order (all_at_once)"]
GATES = {'reviews': 2000, 'denied': 200, 'allowed': 200, 'with_patch': 500, 'type_changes': 50, 'multi_error': 50, 'delete_reviews': 100, 'hinted': 200, 'field_filters': 200}

PATHS = [('spec', 'a'), ('spec', 'b'), ('spec', 'b', 'c'), ('spec', 'b', 'd', 'e'), ('metadata', 'labels', 'l'), ('metadata', 'annotations', 'x.y/z'),
         ('spec', 'k~1/2'), ('spec', 'ключ'), ('spec', 'a b'), ('status', 's'), ('spec',), ('data', 'q')]
VALUES: list[Any] = [1, 'v', True, None, None, {'n': 1}, {'n': {'m': [1, 2]}, 'z': None}, [1, {'a': 1}], '', 0, {}, {'c': 'x'}]


def rnd_object(rng: random.Random) -> dict[str, Any]:
    o: dict[str, Any] = {'apiVersion': 'kopf.dev/v1', 'kind': 'KopfExample', 'metadata': {'name': 'n', 'namespace': 'ns', 'uid': 'u'}}
    if rng.random() < 0.8:
        spec: dict[str, Any] = {}
        for k in ('a', 'b', 'k~1/2', 'ключ'):
            if rng.random() < 0.5:
                spec[k] = copy.deepcopy(rng.choice([1, 'str', None, {'c': 1}, {'c': {'x': 1}, 'd': 'scalar'}, [1, 2], {}]))
        o['spec'] = spec
    if rng.random() < 0.5:
        o['metadata']['labels'] = {'l': 'a', 'm': 'b'}
    if rng.random() < 0.4:
        o['metadata']['annotations'] = {'x.y/z': 'v'}
    if rng.random() < 0.3:
        o['status'] = {'s': 1}
    return o


FNS = {
    'add_finalizer': lambda body: body.setdefault('metadata', {}).setdefault('finalizers', []).append('x/fin'),
    'set_cond': lambda body: body.setdefault('status', {}).__setitem__('conditions', [{'type': 'Ready'}]),
    'bump': lambda body: body.setdefault('spec', {}).__setitem__('bumped', (body.get('spec') or {}).get('bumped', 0) + 1) if isinstance(body.get('spec'), dict) or body.get('spec') is None else None,
    'drop_m': lambda body: (body.get('metadata', {}).get('labels') or {}).pop('m', None),
}


def gen_cases(tier: str, seed: int):
    rng = random.Random(f'C18-{seed}')
    nb = 120 if tier == 'quick' else 3000
    return [{'name': f'b{i}', 'seed': rng.randrange(1 << 30), 'n': 100} for i in range(nb)]


def rnd_handlers(rng: random.Random) -> list[dict[str, Any]]:
    hs = []
    for j in range(rng.randint(1, 4)):
        h: dict[str, Any] = {'id': f'w{j}', 'type': rng.choice(['validate', 'mutate', 'mutate']), 'steps': [], 'outcome': ['ok']}
        r = rng.random()
        if r < 0.25:
            h['operations'] = rng.choice([['CREATE'], ['UPDATE'], ['CREATE', 'UPDATE'], ['DELETE'], ['CREATE', 'UPDATE', 'DELETE']])
        if rng.random() < 0.15:
            h['subresource'] = rng.choice(['status', '*'])
        if rng.random() < 0.2:
            h['labels'] = rng.choice([{'l': 'a'}, {'l': '$ABSENT'}])
        r2 = rng.random()
        if r2 < 0.2:
            # field/value filters (rare with webhooks, but declared the same way): the CURRENT value of the reviewed object decides
            h['field'] = rng.choice(['spec.a', 'spec.b', 'spec.b.c', 'metadata.labels.l'])
            h['value'] = rng.choice(['$NONE', '$PRESENT', '$ABSENT', 1, 'str', 'a'])
        elif r2 < 0.3:
            h['annotations'] = rng.choice([{'x.y/z': 'v'}, {'x.y/z': '$ABSENT'}, {'x.y/z': '$PRESENT'}])
        elif r2 < 0.4:
            h['when'] = rng.choice(['has_status', 'no_status'])
        for _ in range(rng.randint(0, 3)):
            k = rng.random()
            if k < 0.2:
                h['steps'].append(['warn', f'careful-{j}-{len(h["steps"])}'])
            elif h['type'] == 'mutate' and k < 0.85:
                h['steps'].append(['set', list(rng.choice(PATHS)), copy.deepcopy(rng.choice(VALUES))])
            elif h['type'] == 'mutate':
                h['steps'].append(['fn', rng.choice(list(FNS))])
        o = rng.random()
        if o < 0.55:
            h['outcome'] = ['ok']
        elif o < 0.68:
            h['outcome'] = [rng.choice(['adm', 'adm_sub']), rng.choice(['denied!', '', 'нельзя']), rng.choice([400, 403, 422, None, 0])]
        elif o < 0.78:
            h['outcome'] = [rng.choice(['perm', 'perm_sub']), 'permanent']
        elif o < 0.88:
            h['outcome'] = [rng.choice(['temp', 'temp_sub']), 'temporary']
        else:
            h['outcome'] = ['arb', 'boom']
        hs.append(h)
    return hs


def run_case(case: dict[str, Any]) -> dict[str, Any]:
    import kopf
    from kopf._cogs.structs import ephemera, references
    from kopf._core.engines import admission
    from kopf._core.reactor import inventory
    from kv import vtime
    from kv.fakekube import PatchError, json_patch, merge_patch

    class AdmSub(kopf.AdmissionError):
        pass

    class PermSub(kopf.PermanentError):
        pass

    class TempSub(kopf.TemporaryError):
        pass

    rng = random.Random(case['seed'])
    viol: list[dict[str, Any]] = []
    cov: dict[str, int] = {k: 0 for k in GATES}
    sig = hashlib.sha1()
    sample = None
    resource = references.Resource(group='kopf.dev', version='v1', plural='kopfexamples', kind='KopfExample', singular='kopfexample',
                                   shortcuts=frozenset(), categories=frozenset(), subresources=frozenset(['status']), namespaced=True, preferred=True,
                                   verbs=frozenset(['list', 'watch', 'patch']))
    loop = vtime.new_loop(0.0)

    def ensure(d: Any, path: list[str], value: Any) -> None:
        cur = d
        for k in path[:-1]:
            try:
                cur = cur[k]
            except KeyError:
                cur = cur.setdefault(k, {})
        cur[path[-1]] = value

    try:
        for i in range(case['n']):
            hs = rnd_handlers(rng)
            executed: list[str] = []
            registry = kopf.OperatorRegistry()
            for h in hs:
                def make(h: dict[str, Any]) -> Any:
                    async def fn(**kw: Any) -> None:
                        executed.append(h['id'])
                        for st in h['steps']:
                            if st[0] == 'warn':
                                kw['warnings'].append(st[1])
                            elif st[0] == 'set':
                                ensure(kw['patch'], st[1], copy.deepcopy(st[2]))
                            elif st[0] == 'fn':
                                kw['patch'].fns.append(FNS[st[1]])
                        o = h['outcome']
                        if o[0] in ('adm', 'adm_sub'):
                            raise (kopf.AdmissionError if o[0] == 'adm' else AdmSub)(o[1], code=o[2])
                        if o[0] in ('perm', 'perm_sub'):
                            raise (kopf.PermanentError if o[0] == 'perm' else PermSub)(o[1])
                        if o[0] in ('temp', 'temp_sub'):
                            raise (kopf.TemporaryError if o[0] == 'temp' else TempSub)(o[1], delay=1)
                        if o[0] == 'arb':
                            raise ValueError(o[1])
                    fn.__name__ = fn.__qualname__ = h['id']
                    return fn
                kw: dict[str, Any] = {'id': h['id'], 'registry': registry}
                if h.get('operations'):
                    kw['operations'] = h['operations']
                if h.get('subresource'):
                    kw['subresource'] = h['subresource']
                if h.get('labels'):
                    kw['labels'] = {k: (kopf.ABSENT if v == '$ABSENT' else v) for k, v in h['labels'].items()}
                if h.get('annotations'):
                    kw['annotations'] = {k: (kopf.ABSENT if v == '$ABSENT' else kopf.PRESENT if v == '$PRESENT' else v) for k, v in h['annotations'].items()}
                if h.get('field'):
                    kw['field'] = h['field']
                    if h['value'] != '$NONE':
                        kw['value'] = kopf.ABSENT if h['value'] == '$ABSENT' else kopf.PRESENT if h['value'] == '$PRESENT' else h['value']
                if h.get('when'):
                    kw['when'] = (lambda status, **_: bool(status)) if h['when'] == 'has_status' else (lambda status, **_: not status)
                getattr(kopf.on, h['type'])('kopfexamples', **kw)(make(h))
            op = rng.choice(['CREATE', 'UPDATE', 'UPDATE', 'DELETE', 'CONNECT'])
            sub = rng.choice([None, None, None, 'status', 'scale'])
            obj = rnd_object(rng)
            old = rnd_object(rng) if op in ('UPDATE', 'DELETE') else None
            new = None if op == 'DELETE' else obj
            def eid(h: dict[str, Any]) -> str:
                return f"{h['id']}/{h['field']}" if h.get('field') else h['id']      # a field= criterion becomes a part of the handler's (webhook's) id
            hint = rng.choice([None, None] + [eid(h) for h in hs])
            reason_hint = None
            if hint is None and rng.random() < 0.3:
                reason_hint = rng.choice(['validating', 'mutating'])
            if hint is not None:
                hh = next(h for h in hs if eid(h) == hint)
                if hh.get('operations') and op not in hh['operations'] and op != 'CONNECT':
                    op = rng.choice(hh['operations'])   # Kubernetes only calls a handler's own endpoint for its declared operations
                    old = rnd_object(rng) if op in ('UPDATE', 'DELETE') else None
                    new = None if op == 'DELETE' else obj
            request = {'apiVersion': 'admission.k8s.io/v1', 'kind': 'AdmissionReview',
                       'request': {'uid': f'r{i}', 'resource': {'group': 'kopf.dev', 'version': 'v1', 'resource': 'kopfexamples'}, 'operation': op,
                                   'userInfo': {'username': 'u'}, 'dryRun': rng.random() < 0.2, 'object': copy.deepcopy(new), 'oldObject': copy.deepcopy(old)}}
            if sub is not None:
                request['request']['subResource'] = sub
            insights = references.Insights()
            insights.webhook_resources.add(resource)
            settings = kopf.OperatorSettings()
            from kopf._core.intents import causes as _causes
            coro = admission.serve_admission_request(
                copy.deepcopy(request), webhook=hint, reason=(_causes.WebhookType(reason_hint) if reason_hint else None),
                settings=settings, memories=inventory.ResourceMemories(), memobase=ephemera.AnyMemo(ephemera.Memo()),
                registry=registry, insights=insights, indices={})
            reviewed = new if new is not None else old
            err: BaseException | None = None
            response = None
            try:
                response = loop.run_until_complete(coro)
            except Exception as e:
                err = e
            cov['reviews'] += 1
            cov['delete_reviews'] += op == 'DELETE'
            cov['hinted'] += hint is not None
            # ---------------- reference ----------------
            labels = (reviewed.get('metadata') or {}).get('labels') or {}
            want_run: list[str] = []
            unknown: set[str] = set()
            for h in hs:
                if hint is not None and hint != eid(h):
                    continue
                if reason_hint is not None and reason_hint != ('validating' if h['type'] == 'validate' else 'mutating'):
                    continue
                if h['type'] == 'mutate' and op == 'DELETE' and set(h.get('operations') or []) != {'DELETE'}:
                    continue
                hsub = h.get('subresource')
                if not (hsub == '*' or hsub == sub):
                    continue
                if h.get('labels'):
                    okl = all((k not in labels) if v == '$ABSENT' else (labels.get(k) == v) for k, v in h['labels'].items())
                    if not okl:
                        continue
                if h.get('annotations'):
                    anns = (reviewed.get('metadata') or {}).get('annotations') or {}
                    if not all((k not in anns) if v == '$ABSENT' else (k in anns) if v == '$PRESENT' else (anns.get(k) == v) for k, v in h['annotations'].items()):
                        continue
                if h.get('field'):
                    cur: Any = reviewed
                    present = True
                    for part in h['field'].split('.'):
                        if isinstance(cur, dict) and part in cur:
                            cur = cur[part]
                        else:
                            present = False
                            break
                    v = h['value']
                    okf = (not present) if v == '$ABSENT' else present if v in ('$PRESENT', '$NONE') else (present and cur == v)
                    cov['field_filters'] = cov.get('field_filters', 0) + 1
                    if not okf:
                        continue
                if h.get('when'):
                    st = reviewed.get('status')
                    if bool(st) != (h['when'] == 'has_status'):
                        continue
                if h.get('operations') and op not in h['operations'] and hint is None:
                    unknown.add(h['id'])     # not re-checked by the framework without a hint; Kubernetes would not have called
                    continue
                want_run.append(h['id'])
            if unknown:
                # no expectation for this review at all (its outcome depends on the undefined part)
                continue
            sig.update(json.dumps([request, hs, hint, reason_hint], sort_keys=True, default=str).encode())
            acc: dict[str, Any] = {}
            fns: list[str] = []
            warnings: list[str] = []
            errors: list[tuple[int, str, Any]] = []
            for h in hs:
                if h['id'] not in want_run:
                    continue
                raised = None
                for st in h['steps']:
                    if st[0] == 'warn':
                        warnings.append(st[1])
                    elif st[0] == 'set':
                        try:
                            ensure(acc, st[1], copy.deepcopy(st[2]))
                        except TypeError as e:
                            raised = ('arb', repr(e))
                            break
                    elif st[0] == 'fn':
                        fns.append(st[1])
                if raised is None and h['outcome'][0] != 'ok':
                    raised = (h['outcome'][0], h['outcome'])
                if raised is not None:
                    kind = raised[0]
                    rank = 0 if kind in ('adm', 'adm_sub') else 1 if kind in ('perm', 'perm_sub') else 2 if kind in ('temp', 'temp_sub') else 9
                    errors.append((rank, kind, raised[1]))
            if err is not None:
                # the only legitimate way for the call itself to fail is ... none for these inputs
                mech = 'type-change-to-mapping-crashes' if isinstance(err, TypeError) else 'request-crashed'
                viol.append({'mech': mech, 'msg': f'serve_admission_request raised {err!r} instead of answering the review', 'witness': {'request': request, 'handlers': hs}})
                continue
            assert response is not None
            rsp = response['response']
            if sorted(executed) != sorted(want_run) or executed != [h for h in want_run]:
                viol.append({'mech': 'wrong-handlers-ran', 'msg': f'handlers executed {executed}, selection rules give {want_run} (operation={op}, subresource={sub}, hint={hint}/{reason_hint})',
                             'witness': {'request': request, 'handlers': hs}})
                continue
            allowed = not errors
            cov['allowed'] += allowed
            cov['denied'] += not allowed
            cov['multi_error'] += len(errors) > 1
            if bool(rsp.get('allowed')) != allowed:
                viol.append({'mech': 'allowed-mismatch', 'msg': f"allowed={rsp.get('allowed')} although {'no' if allowed else 'a'} selected handler raised", 'witness': {'handlers': hs, 'executed': executed}})
            if errors:
                errors_sorted = sorted(errors, key=lambda t: t[0])   # stable: first of the most specific rank
                rank, kind, payload = errors_sorted[0]
                if kind in ('adm', 'adm_sub'):
                    want_msg, want_code = payload[1], (payload[2] or 500)
                    want_msg = want_msg or None
                else:
                    want_msg, want_code = (payload[1] if isinstance(payload, list) else None), 500
                st = rsp.get('status') or {}
                if st.get('code') != want_code:
                    viol.append({'mech': 'wrong-error-reported', 'msg': f"status code {st.get('code')} reported, the most specific error ({kind}) implies {want_code}", 'witness': {'handlers': hs, 'status': st}})
                elif want_msg is not None and isinstance(payload, list) and st.get('message') != want_msg:
                    viol.append({'mech': 'wrong-error-reported', 'msg': f"message {st.get('message')!r} reported, the most specific error ({kind}) says {want_msg!r}", 'witness': {'handlers': hs, 'status': st}})
            if list(rsp.get('warnings') or []) != warnings:
                viol.append({'mech': 'warnings-mismatch', 'msg': f"warnings {rsp.get('warnings')} returned, handlers issued {warnings}", 'witness': None})
            # the mutation
            ops = json.loads(base64.b64decode(rsp['patch'])) if rsp.get('patch') else []
            cov['with_patch'] += bool(ops)
            try:
                got_obj = json_patch(reviewed, ops)
            except PatchError as e:
                viol.append({'mech': 'patch-does-not-apply', 'msg': f'the returned JSON patch does not apply to the reviewed object: {e}', 'witness': {'object': reviewed, 'ops': ops}})
                continue
            want_obj = merge_patch(reviewed, acc)
            if any(_type_change(reviewed, acc)):
                cov['type_changes'] += 1
            for name in fns:
                FNS[name](want_obj)
            if _norm(got_obj) != _norm(want_obj):
                viol.append({'mech': 'mutation-mismatch', 'msg': 'applying the returned JSON patch does not give the object with the requested field changes and transformations',
                             'witness': {'object': reviewed, 'requested': acc, 'fns': fns, 'ops': ops, 'got': got_obj, 'want': want_obj}})
            if sample is None and ops and errors == []:
                sample = {'operation': op, 'handlers': hs, 'requested': acc, 'json_patch': ops[:6]}
    finally:
        loop.close()
        asyncio.set_event_loop(None)
    return {'violations': viol, 'cov': cov, 'sig': sig.hexdigest()[:16], 'nontrivial': True, 'sample': sample}


def _type_change(obj: Any, patch: Any):
    if isinstance(patch, dict) and patch:
        for k, v in patch.items():
            cur = obj.get(k) if isinstance(obj, dict) else None
            if isinstance(v, dict) and v and k in (obj if isinstance(obj, dict) else {}) and not isinstance(cur, dict):
                yield True
            elif isinstance(v, dict) and isinstance(cur, dict):
                yield from _type_change(cur, v)


def _norm(x: Any) -> Any:
    """Equality up to the presence of empty mappings."""
    if isinstance(x, dict):
        out = {k: _norm(v) for k, v in x.items()}
        return {k: v for k, v in out.items() if v != {}}
    if isinstance(x, list):
        return [_norm(v) for v in x]
    return x

"""
C10 -- timer schedule laws: no self-overlap, interval/sharp/idle/initial-delay timing.
"""
from __future__ import annotations

import hashlib
import random
from typing import Any

ID = 'C10'
LEVEL = 'exploration'
STALL = True
TIMEOUT_PER_CASE = 120.0
TECHNIQUE = ('runtime monitoring: offline checker of schedule laws over recorded (start, end, retry, outcome) tuples of every timer invocation per object, with the '
             'essential-change delivery instants taken from the fake API server\'s stream log; exact arithmetic on a virtual clock')
LEVEL_TEXT = ('Held on the explored configurations: all 16 presence combinations of interval/sharp/idle/initial_delay (numeric and callable delays), handler durations below, '
              'equal to, above and at exact multiples of the interval, outcome scripts with temporary/arbitrary/permanent errors and backoffs, object edits at random and at '
              'deadline-aligned instants (tick time, idle deadline +-1us). Times are compared exactly (1e-4 tolerance for the 1us request latency).')
LEVEL_NOTE = ('After a failure for good the timer stops (docs; kopf since fix b8d214f); C10 does not decide it, so a fresh tick one interval later would also be accepted here (C11 rejects it). '
              'Idle postponement is checked as a safety bound only (no start within idle after the last essential change was delivered).')
RULE = ("one timer per run (sometimes two objects); configuration from the 16-combination grid x durations x scripts x edit timings; non-trivial = at least 3 invocations; distinct = hash of "
        "(configuration, rounded start/end sequence)")
ASSUMPTIONS = ["fake API server watch delivery times are the 'seen' times of changes", "timers return no result unless scripted (so no result patch delays the schedule)"]
GATES = {'timer_runs': 2000, 'laws_after_success': 500, 'laws_after_failure': 50, 'sharp_checks': 100, 'idle_checks': 100, 'initial_delay_checks': 50, 'configs': 16}


def rnd_desc(rng: random.Random, i: int) -> dict[str, Any]:
    combo = i % 16
    has_interval, sharp, has_idle, has_init = bool(combo & 1), bool(combo & 2), bool(combo & 4), bool(combo & 8)
    interval = rng.choice([1.0, 2.0, 3.0]) if has_interval else None
    opts: dict[str, Any] = {}
    if interval is not None:
        opts['interval'] = interval
    if sharp:
        opts['sharp'] = True
    if has_idle:
        opts['idle'] = rng.choice([1.5, 4.0])
    if has_init:
        opts['initial_delay'] = rng.choice([0.7, 2.0, '$callable'])
    if rng.random() < 0.4:
        opts['backoff'] = rng.choice([0.5, 1.5])
    base = interval or 1.0
    durs = [0.0, 0.0, 0.3 * base, base, 1.7 * base, 2.0 * base, 3.0 * base]
    script = []
    for _ in range(30):
        d = rng.choice(durs)
        out = rng.choice([['ok']] * 6 + [['temp', rng.choice([0.4, 1.0, 2.5])], ['arb'], ['perm'], ['ok', {'tick': 1}]])
        script.append(['slow', round(d, 6), out] if d else out)
    handlers = [{'kind': 'timer', 'id': 'tm', 'opts': opts, 'script': script}, {'kind': 'create', 'id': 'c1'}, {'kind': 'update', 'id': 'u1'}]
    tl: list[list[Any]] = [[0.0, 'start', 'op1'], [1.0, 'create', 'o0', {'spec': {'x': 0, 'delay': 1.3}}]]
    if rng.random() < 0.3:
        tl.append([1.4, 'create', 'o1', {'spec': {'x': 0, 'delay': 0.2}}])
    t = 1.0
    horizon = 40.0
    for k in range(rng.randint(0, 8)):
        how = rng.random()
        if how < 0.4 and interval:
            t = round(1.0 + rng.randint(1, 12) * interval + rng.choice([-1e-6, 0.0, 1e-6, 0.1]), 6)     # aligned with tick instants
        elif how < 0.6 and has_idle:
            t = round(t + opts['idle'] + rng.choice([-1e-6, 0.0, 1e-6]), 6)                              # aligned with the idle deadline
        else:
            t = round(rng.uniform(1.5, horizon - 5), 3)
        tl.append([t, 'edit', rng.choice(['o0', 'o0', 'o1']), {'spec': {'x': k + 1}} if rng.random() < 0.7 else {'status': {'s': k}}])
    tl.append([horizon, 'edit', 'o0', {'status': {'end': 1}}])
    tl.sort(key=lambda x: x[0])
    return {'seed': rng.randrange(1 << 30), 'handlers': handlers, 'timeline': tl, 'quiet': None, 'end': 'stop', 'horizon': 200.0,
            'settings': {'queueing__idle_timeout': 1.0, 'persistence__consistency_timeout': 0.5, 'execution__default_backoff': 1.2}, 'combo': combo}


def _sync(desc: dict[str, Any], seed: int, i: int) -> dict[str, Any]:
    from kv.world import syncify
    return syncify(desc, random.Random(f'C10-sync-{seed}-{i}'))       # a share of the scenarios runs (some of) its handlers as threads


def gen_cases(tier: str, seed: int):
    rng = random.Random(f'C10-{seed}')
    n = 480 if tier == 'quick' else 16000
    return [{'name': f'rnd{i}', 'desc': _sync(rnd_desc(rng, i), seed, i)} for i in range(n)]


def _patch_callable_delay(desc: dict[str, Any]) -> None:
    for h in desc['handlers']:
        if (h.get('opts') or {}).get('initial_delay') == '$callable':
            h['opts']['initial_delay'] = lambda spec, **_: float(spec.get('delay', 1.0))
            h['_callable_delay'] = True


def run_case(case: dict[str, Any]) -> dict[str, Any]:
    import copy
    from kv.monitors import Stall
    from kv.oracles import Index, trace_lines
    from kv.refmodels import essence, json_eq_mod_null
    from kv.world import run_world

    Stall.take_hits()
    desc = copy.deepcopy(case['desc'])
    _patch_callable_delay(desc)
    w = run_world(desc)
    ix = Index(w)
    viol: list[dict[str, Any]] = []
    cov = {k: 0 for k in GATES}
    for s in Stall.take_hits():
        viol.append({'mech': 'stall', 'msg': 'event loop stalled', 'witness': s})
    spec = next(h for h in desc['handlers'] if h['kind'] == 'timer')
    opts = spec.get('opts') or {}
    interval, sharp, idle, init = opts.get('interval'), bool(opts.get('sharp')), opts.get('idle'), opts.get('initial_delay')
    backoff = opts.get('backoff', 1.2)
    EPS = 1e-4
    sig_parts = [repr(sorted((k, v if not callable(v) else 'fn') for k, v in opts.items()))]
    cov['configs'] = 0
    deliveries: dict[str, list[tuple[float, dict[str, Any]]]] = {}
    for st in w.sim.kube.streams:
        if st.plural == 'kopfexamples' and st.client.name == 'op1':
            for t, typ, uid, rv in st.delivered:
                if uid is not None:
                    b = next((v['body'] for v in w.history[uid] if str(v['rv']) == str(rv)), None)
                    if b is not None:
                        deliveries.setdefault(uid, []).append((t, b))
    for uid in ix.uids:
        runs = []
        for c in ix.calls:
            if c['kind'] == 'timer' and c['uid'] == uid and not c.get('post_mortem'):
                r = ix.rets.get(c['seq'])
                runs.append((c['t'], r['t'] if r is not None else None, c.get('retry'), r['outcome'] if r is not None else None, c))
        cov['timer_runs'] += len(runs)
        if not runs:
            continue
        # essential-change delivery instants
        ess_times = []
        prev = None
        for t, b in deliveries.get(uid, []):
            e = essence(b)
            if prev is None or not json_eq_mod_null(prev, e):
                ess_times.append(t)
            prev = e
        first_seen = deliveries[uid][0][0] if deliveries.get(uid) else None
        # initial delay
        if first_seen is not None:
            d0 = init
            if callable(d0):
                d0 = float((w.history[uid][0]['body'].get('spec') or {}).get('delay', 1.0))
            if d0 is not None:
                cov['initial_delay_checks'] += 1
                if runs[0][0] < first_seen + d0 - EPS:
                    viol.append({'mech': 'initial-delay-violated', 'msg': f"{uid}: first run at t={runs[0][0]}, the object was first seen at t={first_seen}, initial_delay={d0}", 'witness': None})
        for i, (s, e, retry, out, c) in enumerate(runs):
            # idle: no start within `idle` after the last essential change delivered before the start
            if idle is not None:
                # a change delivered within the in-process latency (watch stream -> worker -> cause detection takes dozens of loop
                # iterations, during which a virtual clock may tick) before the start is not necessarily 'seen' yet
                before = [t for t in ess_times if t < s - 1e-3]
                if before:
                    cov['idle_checks'] += 1
                    if s < before[-1] + idle - EPS:
                        viol.append({'mech': 'idle-violated', 'msg': f"{uid}: run #{i} started at t={s}, only {round(s - before[-1], 6)}s after the essential change delivered at t={before[-1]} (idle={idle})", 'witness': None})
            if i == 0:
                continue
            ps, pe, pretry, pout, pc = runs[i - 1]
            if pe is None:
                viol.append({'mech': 'timer-overlap', 'msg': f"{uid}: run #{i} started at t={s} while run #{i - 1} (started {ps}) had not ended", 'witness': None})
                continue
            if s < pe - 1e-9:
                viol.append({'mech': 'timer-overlap', 'msg': f"{uid}: run #{i} started at t={s} before run #{i - 1} ended at t={pe}", 'witness': None})
                continue
            gap = s - pe
            if pout == 'ok':
                cov['laws_after_success'] += 1
                if interval is None:
                    # idle-only timers run once per essential change; no-interval-no-idle timers run once
                    if idle is None:
                        viol.append({'mech': 'one-shot-timer-repeated', 'msg': f"{uid}: a timer without interval and idle ran again at t={s}", 'witness': None})
                    continue
                if sharp:
                    cov['sharp_checks'] += 1
                    k = (s - ps) / interval
                    postponed = idle is not None and any(pe - 1e-9 <= t + idle and t <= s for t in ess_times)
                    if abs(k - round(k)) * interval > EPS and not postponed:
                        viol.append({'mech': 'sharp-grid-missed', 'msg': f"{uid}: sharp timer run #{i} started at t={s}; previous start t={ps}, interval={interval}: not on the grid", 'witness': None})
                    if gap > interval + EPS and not postponed:
                        viol.append({'mech': 'timer-late', 'msg': f"{uid}: sharp timer waited {round(gap, 6)}s after the previous run ended (interval={interval})", 'witness': None})
                else:
                    postponed = idle is not None and any(pe - 1e-9 <= t + idle and t <= s for t in ess_times)
                    if gap < interval - EPS:
                        viol.append({'mech': 'interval-too-short', 'msg': f"{uid}: run #{i} started {round(gap, 6)}s after the previous successful run ended (interval={interval})", 'witness': None})
                    elif gap > interval + EPS and not postponed:
                        viol.append({'mech': 'timer-late', 'msg': f"{uid}: run #{i} started {round(gap, 6)}s after the previous run ended (interval={interval}, no idle postponement applies)", 'witness': None})
                if retry not in (0, None):
                    viol.append({'mech': 'retry-not-reset', 'msg': f"{uid}: run #{i} after a success was invoked with retry={retry}", 'witness': None})
            elif pout in ('temp', 'arb'):
                cov['laws_after_failure'] += 1
                need = _delay_of(pc, ix) if pout == 'temp' else backoff
                if need is not None:
                    if gap < need - EPS:
                        viol.append({'mech': 'retry-too-soon', 'msg': f"{uid}: run #{i} started {round(gap, 6)}s after the failed run ended; the error asked for {need}s", 'witness': None})
                    postponed = idle is not None and any(pe - 1e-9 <= t + idle and t <= s for t in ess_times)
                    if gap > need + EPS and not postponed:
                        viol.append({'mech': 'timer-late', 'msg': f"{uid}: retry started {round(gap, 6)}s after the failed run; the error asked for {need}s", 'witness': None})
            elif pout == 'perm':
                if retry not in (0, None):
                    viol.append({'mech': 'run-after-permanent-failure', 'msg': f"{uid}: after a permanent failure the timer was retried (retry={retry}) at t={s}", 'witness': None})
                if interval is not None and not sharp and gap < interval - EPS:
                    viol.append({'mech': 'interval-too-short', 'msg': f"{uid}: fresh tick {round(gap, 6)}s after a permanent failure (interval={interval})", 'witness': None})
                if interval is not None and sharp:
                    k = (s - ps) / interval
                    if abs(k - round(k)) * interval > EPS and not (idle is not None and any(pe - 1e-9 <= t + idle and t <= s for t in ess_times)):
                        viol.append({'mech': 'sharp-grid-missed', 'msg': f"{uid}: sharp timer's fresh tick after a permanent failure at t={s}; previous start t={ps}, interval={interval}", 'witness': None})
        sig_parts.append(';'.join(f"{round(s, 3)}-{None if e is None else round(e, 3)}:{o}" for s, e, _, o, _ in runs[:30]))
    cov['configs'] = 0
    sample = None
    if case['name'] in ('rnd3', 'rnd7'):
        sample = {'opts': {k: (v if not callable(v) else 'callable') for k, v in opts.items()}, 'runs': sig_parts[1:2]}
    return {'violations': viol, 'cov': cov, 'sig': hashlib.sha1('|'.join(sig_parts).encode()).hexdigest()[:16], 'nontrivial': cov['timer_runs'] >= 3,
            'sample': sample, 'info': {'combo': case['desc'].get('combo')}, 'trace': trace_lines(w) if case.get('_verbose') else None}


def _delay_of(call: dict[str, Any], ix: Any) -> float | None:
    from kv.checks.c11 import _temp_delay
    return _temp_delay(ix, call)


def finalize(agg: dict[str, Any]) -> dict[str, Any]:
    combos = {(r.get('info') or {}).get('combo') for r in agg['results']}
    combos.discard(None)
    agg['cov']['configs'] = len(combos)
    return {'presence_combinations_covered': sorted(combos)}

"""
C12 -- infrastructure errors: retried per the backoffs (never sooner than Retry-After), escalated, one re-authentication per 401 wave,
contained per object by the error throttler, never fatal.
"""
from __future__ import annotations

import asyncio
import hashlib
import logging
import random
from typing import Any

ID = 'C12'
LEVEL = 'fault_enumeration'
STALL = True
TIMEOUT_PER_CASE = 180.0
TECHNIQUE = ('runtime monitoring with fault injection: (a) the real api.request()/auth.authenticated()/Vault/authenticator run against the fake API server on a virtual clock with '
             'scripted per-attempt faults; the attempt instants logged by the server are checked against the configured backoffs and Retry-After; (b) N concurrent requesters '
             'with token revocations, checked for one login per revoked token, no loss, no use of a revoked token after its first 401; (c) the whole operator with faults on one '
             'object\'s requests, checked for per-object error delays, an unaffected neighbour object, recovery and operator survival')
LEVEL_TEXT = ('Held on the enumerated fault sequences: every fault word up to length 3 over {5xx (503 also with Retry-After), 403, 429(+Retry-After header / details / none), connection error, timeout, '
              '400/404/409/422, success} x backoff configurations {empty, scalar 0, scalar, list with zeros, default-like list, re-iterable non-sized iterable} x '
              'enforce_retry_after on/off, plus random longer words; 1-12 concurrent requesters x 1-3 token revocations x login durations; operator runs with fault windows '
              '(5xx bursts, garbage responses) on one of two objects and error-delay lists {empty, one, several}.')
LEVEL_NOTE = ('Retry-After (header or details.retryAfterSeconds) is judged on every retried HTTP response that carries it: 429 and also 503 (kopf honoured it for 429 only before fix; see DESIGN 6.2). '
              'The 401 part drives api.get/api.patch directly (not through watch streams).')
RULE = ('retry words: exhaustive up to length 3 per configuration (quick: sampled), random up to length 12; non-trivial = at least one retry happened, a re-authentication happened, '
        'or the throttler was activated; distinct = hash of (configuration, fault word, observed attempt gaps)')
ASSUMPTIONS = ['a fake aiohttp session stands for the network: connection errors/timeouts are raised by it', 'login handlers always return fresh credentials eventually',
               'Retry-After values are whole seconds (HTTP)']
SANITIZE_LOOP_ERRORS = True      # an exception inside an asyncio callback during the simulation is a violation here (runner.run_case_sanitized)
GATES = {'retry_cases': 150, 'attempts': 1200, 'gaps_checked': 600, 'retry_after_overrides': 100, 'retry_after_on_5xx': 20, 'zero_backoff_429': 20, 'escalations': 150, 'immediate_escalations': 50,
         'reauth_cases': 60, 'logins': 60, 'blocked_requests_resumed': 80, 'reauth_operator_runs': 30, 'contain_cases': 30, 'throttle_rounds': 50, 'neighbour_calls': 100, 'recoveries': 30}

RETRYABLE = {500, 502, 503, 504, 403, 429}
FATAL = {400, 404, 409, 410, 422}


class ReIterable:
    """An iterable that is neither Sized nor a one-shot iterator: iter() restarts it (what the docs ask of custom backoffs)."""
    def __init__(self, items: list[float]) -> None:
        self.items = items

    def __iter__(self) -> Any:
        return iter(list(self.items))


def mk_backoffs(spec: dict[str, Any]) -> Any:
    k = spec['kind']
    if k == 'empty':
        return []
    if k == 'scalar':
        return spec['v']
    if k == 'list':
        return list(spec['v'])
    if k == 'tuple':
        return tuple(spec['v'])
    if k == 'reiterable':
        return ReIterable(list(spec['v']))
    raise ValueError(k)


def norm_backoffs(spec: dict[str, Any]) -> list[float]:
    return [] if spec['kind'] == 'empty' else [spec['v']] if spec['kind'] == 'scalar' else list(spec['v'])


def expect(B: list[float], enforce: bool, word: list[list[Any]]) -> tuple[int, list[float], str]:
    """The documented retry law: -> (number of attempts, gaps between attempts, outcome)."""
    gaps: list[float] = []
    k = 0
    while True:
        atom = word[k] if k < len(word) else ['ok']
        backoff = B[k] if k < len(B) else None
        if atom[0] == 'ok':
            return k + 1, gaps, 'ok'
        if atom[0] == 'status' and atom[1] in FATAL:
            return k + 1, gaps, f'raise:{atom[1]}'
        if backoff is None:
            return k + 1, gaps, 'raise:' + (str(atom[1]) if atom[0] == 'status' else atom[0])
        gap = backoff
        if atom[0] == 'status':      # whichever retried response carries it (429 as a rule; 503 and other 5xx may as well)
            ra = atom[2] if len(atom) > 2 and atom[2] is not None else atom[3] if len(atom) > 3 and atom[3] is not None else None
            if ra is not None:
                ra = int(float(ra))
                if enforce or ra > backoff:
                    gap = ra
        gaps.append(gap)
        k += 1


# ------------------------------------------------------------------------------------------
ATOMS: list[list[Any]] = [['ok'], ['status', 500], ['status', 503], ['status', 403], ['status', 429], ['status', 429, 2, None], ['status', 429, None, 3],
                          ['status', 429, 1, None], ['status', 503, 2, None], ['conn'], ['timeout'], ['status', 404], ['status', 409], ['status', 422], ['status', 400], ['status', 504]]
CONFIGS: list[dict[str, Any]] = [{'kind': 'empty'}, {'kind': 'scalar', 'v': 0}, {'kind': 'scalar', 'v': 0.5}, {'kind': 'list', 'v': [0, 2, 0.25]}, {'kind': 'tuple', 'v': [1, 1, 2, 3]},
                                 {'kind': 'reiterable', 'v': [0.5, 1.5]}, {'kind': 'list', 'v': [0.1, 0.1, 0.1, 0.1, 0.1, 0.1, 0.1, 0.1, 0.1, 0.1, 0.1, 0.1]}]


def gen_cases(tier: str, seed: int):
    rng = random.Random(f'C12-{seed}')
    cases: list[dict[str, Any]] = []
    # (a) retry words
    words: list[list[list[Any]]] = [[a] for a in ATOMS] + [[a, b] for a in ATOMS for b in ATOMS] + [[a, b, c] for a in ATOMS[1:11] for b in ATOMS[1:11] for c in ATOMS]
    if tier == 'quick':
        words = [[a] for a in ATOMS] + rng.sample(words[len(ATOMS):], 460)
    i = 0
    batch: list[list[list[Any]]] = []
    for wd in words:
        batch.append(wd)
        if len(batch) == 6:
            cfg = CONFIGS[i % len(CONFIGS)]
            cases.append({'name': f'retry{i}', 'type': 'retry', 'backoffs': cfg, 'enforce': bool((i // len(CONFIGS)) % 2), 'words': batch, 'method': rng.choice(['get', 'patch'])})
            batch = []
            i += 1
    if tier != 'quick':
        # every configuration sees every word batch once more
        for j in range(i):
            c = dict(cases[j])
            c.update(name=f'retryx{j}', backoffs=CONFIGS[(j + 3) % len(CONFIGS)], enforce=not c['enforce'])
            cases.append(c)
    for j in range(100 if tier == 'quick' else 1500):
        wd = [rng.choice(ATOMS[1:11] if rng.random() < 0.85 else ATOMS) for _ in range(rng.randint(3, 12))]
        cases.append({'name': f'retryr{j}', 'type': 'retry', 'backoffs': rng.choice(CONFIGS), 'enforce': rng.random() < 0.5, 'words': [wd, [rng.choice(ATOMS[1:11])], wd[:2]],
                      'method': rng.choice(['get', 'patch'])})
    # (b) re-authentication under concurrency
    for j in range(90 if tier == 'quick' else 1500):
        n = rng.choice([1, 2, 3, 5, 8, 12])
        cases.append({'name': f'reauth{j}', 'type': 'reauth', 'seed': rng.randrange(1 << 30), 'workers': n, 'requests': rng.randint(3, 8),
                      'revocations': sorted(round(rng.uniform(0.5, 12.0), 3) for _ in range(rng.randint(1, 3))),
                      'login_delay': rng.choice([0.0, 0.2, 1.0, 3.0]), 'latencies': [0.0, 0.05, 0.3, 1.0], 'gap': rng.choice([0.0, 0.1, 0.7]),
                      'flaky': rng.random() < 0.4, 'start_empty': rng.random() < 0.2})
        if len(cases[-1]['revocations']) >= 2 and random.Random(f'C12-stale-{seed}-{j}').random() < 0.6:
            cases[-1]['stale_offer'] = True       # the second login offers the FIRST credentials again (invalidated before the last re-authentication)
            cases[-1].update(requests=30, gap=0.5, start_empty=False)      # the requesters go on through all revocations
    # (d) re-authentication of the whole operator: its token is revoked while watch streams are open and several patches are in flight
    for j in range(40 if tier == 'quick' else 1000):
        n_obj = rng.choice([1, 2, 4, 6])
        tl: list[list[Any]] = [[0.5, 'start', 'op1']]
        for k in range(n_obj):
            tl.append([1.0, 'create', f'o{k}', {'spec': {'x': 0}}])
        t = 2.0
        last: dict[str, int] = {}
        for k in range(rng.randint(8, 30)):
            t = round(t + rng.choice([0.0, 0.05, 0.3, 0.7, 1.5]), 3)
            nm = f'o{rng.randrange(n_obj)}'
            last[nm] = k + 1
            tl.append([t, 'edit', nm, {'spec': {'x': k + 1}}])
        t_max = t
        for k in range(rng.randint(1, 3)):
            tr = round(rng.uniform(2.0, t_max + 1.0), 3)
            tl.append([tr, 'revoke', 'op1'])
            if rng.random() < 0.3:
                tl.append([round(tr + rng.choice([0.0, 0.1, 1.0]), 3), 'revoke', 'op1'])     # again, possibly while the login is still in progress
        tl.sort(key=lambda x: x[0])
        handlers = [{'kind': 'login', 'id': 'lg', 'delay': rng.choice([0.0, 0.3, 1.5])}, {'kind': 'create', 'id': 'c1'},
                    {'kind': 'update', 'id': 'u1', 'script': [rng.choice([['ok'], ['slow', 0.4], ['ok', {'r': 1}]]) for _ in range(60)]}]
        if rng.random() < 0.5:
            handlers.append({'kind': 'timer', 'id': 'tm', 'opts': {'interval': 1.0}, 'script': [['ok', {'n': k2}] for k2 in range(80)]})
        cases.append({'name': f'reauthop{j}', 'type': 'reauth_op', 'last': last,
                      'desc': {'seed': rng.randrange(1 << 30), 'handlers': handlers, 'timeline': tl, 'quiet': 6.0, 'horizon': 200.0, 'latency': rng.choice([0.001, 0.02, 0.1]),
                               'settings': {'queueing__idle_timeout': 1.0, 'persistence__consistency_timeout': 0.5, 'networking__error_backoffs': [0.2, 0.4]}}})
    # (c) containment per object
    for j in range(40 if tier == 'quick' else 800):
        delays = rng.choice([[1.0, 2.0, 3.0], [0.5], [], [1.0, 1.0, 2.0, 3.0, 5.0]])
        t1 = round(rng.uniform(4.0, 8.0), 3)
        dur = rng.choice([0.5, 3.0, 8.0, 15.0])
        cases.append({'name': f'contain{j}', 'type': 'contain', 'seed': rng.randrange(1 << 30), 'error_delays': delays, 'window': [t1, round(t1 + dur, 3)],
                      'fault': rng.choice(['status500', 'status500', 'text', 'conn', 'status422']), 'second_window': rng.random() < 0.5,
                      'edits_b': sorted(round(rng.uniform(3.0, 40.0), 3) for _ in range(rng.randint(3, 8))),
                      # several events of the failing object inside ONE error delay (they interrupt the pause, their cycles are skipped): the delays
                      # must still grow per consecutive error, a skipped cycle is not a success
                      'flood': random.Random(f'C12-flood-{seed}-{j}').choice([None, 0.15, 0.4, 0.9, 1.7])})
    return cases


# ------------------------------------------------------------------------------------------
def _mk(kube_cls: Any, loop_seed: int) -> Any:
    from kv import fakekube, vtime
    vtime.install()
    loop = vtime.new_loop(0.0)
    asyncio.set_event_loop(loop)
    kube = fakekube.FakeKube([fakekube.KEX])
    kube.base_latency = 1e-6
    return loop, kube


def _settings(cfg: dict[str, Any], enforce: bool) -> Any:
    import kopf
    s = kopf.OperatorSettings()
    s.networking.error_backoffs = mk_backoffs(cfg)
    s.networking.enforce_retry_after = enforce
    s.posting.enabled = False
    return s


def _fault_from_atom(fakekube: Any, atom: list[Any]) -> Any:
    if atom[0] == 'ok':
        return None
    if atom[0] == 'conn':
        return [fakekube.Fault('conn')]
    if atom[0] == 'timeout':
        return [fakekube.Fault('timeout')]
    hdrs = {'Retry-After': str(atom[2])} if len(atom) > 2 and atom[2] is not None else {}
    det = {'retryAfterSeconds': atom[3]} if len(atom) > 3 and atom[3] is not None else None
    return [fakekube.Fault('status', status=atom[1], headers=hdrs, details=det)]


def run_retry(case: dict[str, Any]) -> dict[str, Any]:
    from kopf._cogs.clients import api, auth
    from kopf._cogs.structs import credentials
    from kv import fakekube
    loop, kube = _mk(None, 0)
    viol: list[dict[str, Any]] = []
    cov = {k: 0 for k in GATES}
    cov['retry_cases'] = 1
    settings = _settings(case['backoffs'], case['enforce'])
    B = norm_backoffs(case['backoffs'])
    logger = logging.getLogger('kv.c12')
    logger.propagate = False
    logger.disabled = True
    client = kube.client('c1')
    kube.create('kopfexamples', 'ns1', 'x', {'apiVersion': 'kopf.dev/v1', 'kind': 'KopfExample', 'spec': {}})
    obs: list[Any] = []

    async def main() -> None:
        vault = credentials.Vault({'k': credentials.AiohttpSession(server='http://fake', aiohttp_session=client)})
        auth.vault_var.set(vault)
        for wi, word in enumerate(case['words']):
            pos = {'k': 0}
            first = len(kube.requests)

            def fault_fn(req: Any, word: list[list[Any]] = word, pos: dict[str, int] = pos) -> Any:
                k = pos['k']
                pos['k'] += 1
                return _fault_from_atom(fakekube, word[k]) if k < len(word) else None
            kube.fault_fn = fault_fn
            url = '/apis/kopf.dev/v1/namespaces/ns1/kopfexamples/x'
            t0 = loop.time()
            try:
                if case['method'] == 'get':
                    await asyncio.wait_for(api.get(url, settings=settings, logger=logger), timeout=3600)
                else:
                    await asyncio.wait_for(api.patch(url, payload={'spec': {'w': wi}}, headers={'Content-Type': 'application/merge-patch+json'}, settings=settings, logger=logger), timeout=3600)
                outcome = 'ok'
            except asyncio.TimeoutError:
                outcome = 'raise:timeout'
            except Exception as e:
                st = getattr(e, 'status', None)
                outcome = f'raise:{st}' if st is not None else 'raise:conn' if 'onnection' in type(e).__name__ or 'ClientConnection' in repr(type(e).__mro__) else f'raise:{type(e).__name__}'
            reqs = kube.requests[first:]
            obs.append((word, outcome, [(r.t, r.t_end, r.status) for r in reqs], loop.time() - t0))
            await asyncio.sleep(1.0)
    try:
        loop.run_until_complete(main())
    finally:
        loop.close()
        asyncio.set_event_loop(None)
    sig_parts: list[str] = [repr(case['backoffs']), str(case['enforce'])]
    nontrivial = False
    for word, outcome, atts, dur in obs:
        n_exp, gaps_exp, out_exp = expect(B, case['enforce'], word)
        cov['attempts'] += len(atts)
        gaps = [round(atts[k + 1][0] - atts[k][1], 6) for k in range(len(atts) - 1)]
        sig_parts.append(repr((word, gaps, outcome)))
        nontrivial = nontrivial or len(atts) > 1
        w = {'word': word, 'backoffs': case['backoffs'], 'enforce_retry_after': case['enforce'], 'attempts': atts, 'outcome': outcome, 'expected': [n_exp, gaps_exp, out_exp]}
        if out_exp.startswith('raise') and n_exp == 1:
            cov['immediate_escalations'] += 1
        elif out_exp.startswith('raise'):
            cov['escalations'] += 1
        if len(atts) != n_exp:
            mech = 'retried-a-fatal-error' if n_exp < len(atts) and out_exp.startswith('raise:4') else 'too-many-attempts' if len(atts) > n_exp else 'gave-up-early'
            viol.append({'mech': mech, 'msg': f"fault word {word} with backoffs {case['backoffs']}: {len(atts)} attempts, the configuration gives {n_exp} ({out_exp})", 'witness': w})
            continue
        if outcome != out_exp and not (outcome.startswith('raise') and out_exp.startswith('raise')):
            viol.append({'mech': 'wrong-outcome', 'msg': f"fault word {word}: outcome {outcome}, expected {out_exp}", 'witness': w})
            continue
        for k, (g, ge) in enumerate(zip(gaps, gaps_exp)):
            cov['gaps_checked'] += 1
            atom = word[k]
            ra = None
            if atom[0] == 'status':
                ra = atom[2] if len(atom) > 2 and atom[2] is not None else atom[3] if len(atom) > 3 and atom[3] is not None else None
            if ra is not None:
                if atom[1] != 429:
                    cov['retry_after_on_5xx'] += 1
                if ge != B[k]:
                    cov['retry_after_overrides'] += 1
                if B[k] == 0:
                    cov['zero_backoff_429'] += 1
                if g < ra - 1e-6:
                    viol.append({'mech': 'retried-sooner-than-retry-after', 'msg': f"fault word {word}, backoffs {case['backoffs']}: attempt #{k + 2} came {g}s after a {atom[1]} asking for Retry-After={ra}", 'witness': w})
                    break
            if abs(g - ge) > 1e-5:
                viol.append({'mech': 'retry-gap-mismatch', 'msg': f"fault word {word}, backoffs {case['backoffs']} (enforce_retry_after={case['enforce']}): gap before attempt #{k + 2} is {g}s, expected {ge}s", 'witness': w})
                break
    return {'violations': viol, 'cov': cov, 'sig': hashlib.sha1('|'.join(sig_parts).encode()).hexdigest()[:16], 'nontrivial': nontrivial,
            'sample': {'backoffs': case['backoffs'], 'first_word': obs[0][0], 'attempts': obs[0][2], 'outcome': obs[0][1]} if case['name'] == 'retry0' else None}


# ------------------------------------------------------------------------------------------
def run_reauth(case: dict[str, Any]) -> dict[str, Any]:
    import kopf
    from kopf._cogs.clients import api, auth
    from kopf._cogs.structs import credentials, ephemera
    from kopf._core.engines import activities, indexing
    from kv import fakekube
    loop, kube = _mk(None, 0)
    rng = random.Random(case['seed'])
    viol: list[dict[str, Any]] = []
    cov = {k: 0 for k in GATES}
    cov['reauth_cases'] = 1
    settings = _settings({'kind': 'list', 'v': [0.3, 0.6]}, False)
    logger = logging.getLogger('kv.c12')
    logger.propagate = False
    logger.disabled = True
    kube.create('kopfexamples', 'ns1', 'x', {'apiVersion': 'kopf.dev/v1', 'kind': 'KopfExample', 'spec': {}})
    revoked: set[str] = set()
    current = {'n': 0}
    logins: list[dict[str, Any]] = []
    results: list[dict[str, Any]] = []
    first401: dict[str, float] = {}
    consec: dict[Any, int] = {}

    first_client: list[Any] = []

    class TokenSession(fakekube.Client):
        """Credentials are compared by what they ARE (the token), as kopf's ConnectionInfo is: a new session built from a token equals the old one with that token."""
        def __eq__(self, other: Any) -> bool:
            return isinstance(other, fakekube.Client) and getattr(other, 'token', None) == self.token

        def __hash__(self) -> int:
            return hash(self.token)

    def new_client(token: str | None = None) -> Any:
        c = kube.client(token or f"tok{current['n']}")
        c.__class__ = TokenSession
        c.token = c.name
        if token is None:
            current['n'] += 1
        if not first_client:
            first_client.append(c)
        return c

    registry = kopf.OperatorRegistry()

    @kopf.on.login(registry=registry, id='login')
    async def login(**_: Any) -> Any:
        rec = {'t0': loop.time(), 't1': None}
        logins.append(rec)
        if case['login_delay']:
            await asyncio.sleep(case['login_delay'])
        if case.get('stale_offer') and len(logins) == 2 and first_client:
            # a login handler that offers credentials again which were invalidated BEFORE the last successful re-authentication (a cached kubeconfig,
            # a token file not yet rotated): they are refused -- invalidated credentials are not reused, however long ago they were invalidated
            rec['t1'] = loop.time()
            rec['token'] = first_client[0].token
            rec['stale'] = True
            cov['stale_offers'] = cov.get('stale_offers', 0) + 1
            # a NEW session built from the old token (the old session object was closed at its invalidation and stays closed: requests that still hold it fail as before)
            return credentials.AiohttpSession(server='http://fake', aiohttp_session=new_client(first_client[0].token))
        c = new_client()
        rec['t1'] = loop.time()
        rec['token'] = c.token
        return credentials.AiohttpSession(server='http://fake', aiohttp_session=c)

    def fault_fn(req: Any) -> Any:
        out = []
        lat = rng.choice(case['latencies'])
        if lat:
            out.append(fakekube.Fault('latency', delay=lat))
        key = (req.method, req.path, repr(req.payload))
        if case['flaky'] and rng.random() < 0.15 and consec.get(key, 0) < 2:      # never more in a row than the backoffs [0.3, 0.6] absorb
            consec[key] = consec.get(key, 0) + 1
            out.append(fakekube.Fault('status', status=503))
        else:
            consec[key] = 0
        return out
    kube.fault_fn = fault_fn
    orig_route = kube._route

    def route(client: Any, req: Any, *a: Any, **kw: Any) -> Any:
        if client.token in revoked:
            first401.setdefault(client.token, loop.time())
            return fakekube.Response(401, fakekube.status_payload(401, 'Unauthorized'))
        return orig_route(client, req, *a, **kw)
    kube._route = route  # type: ignore[method-assign]

    async def worker(i: int) -> None:
        for j in range(case['requests']):
            rec = {'w': i, 'j': j, 't0': loop.time(), 't1': None, 'outcome': None}
            results.append(rec)
            try:
                if (i + j) % 2:
                    await api.get(f'/apis/kopf.dev/v1/namespaces/ns1/kopfexamples/x?w={i}-{j}', settings=settings, logger=logger)
                else:
                    await api.patch('/apis/kopf.dev/v1/namespaces/ns1/kopfexamples/x', payload={'spec': {f'w{i}': j}},
                                    headers={'Content-Type': 'application/merge-patch+json'}, settings=settings, logger=logger)
                rec['outcome'] = 'ok'
            except Exception as e:
                rec['outcome'] = f'{type(e).__name__}: {e}'[:200]
            rec['t1'] = loop.time()
            await asyncio.sleep(case['gap'] + rng.choice([0.0, 0.01, 0.2]))

    async def main() -> None:
        if case['start_empty']:
            vault = credentials.Vault()
        else:
            vault = credentials.Vault({'login': credentials.AiohttpSession(server='http://fake', aiohttp_session=new_client())})
        auth.vault_var.set(vault)
        authn = asyncio.create_task(activities.authenticator(registry=registry, settings=settings, indices=indexing.OperatorIndexers().indices,
                                                             vault=vault, memo=ephemera.Memo()))
        for t in case['revocations']:
            loop.call_at(t, lambda: revoked.add(f"tok{current['n'] - 1}"))
        workers = [asyncio.create_task(worker(i)) for i in range(case['workers'])]
        done, pending = await asyncio.wait(workers, timeout=600)
        for p in pending:
            p.cancel()
        authn.cancel()
        await asyncio.wait([authn] + list(pending), timeout=5)
    try:
        loop.run_until_complete(main())
    finally:
        loop.close()
        asyncio.set_event_loop(None)
    cov['logins'] = len(logins)
    noticed = sorted(first401)
    bad = [r for r in results if r['outcome'] != 'ok']
    stale = any(l.get('stale') for l in logins)
    if stale:
        bad = [r for r in bad if 'LoginError' not in str(r['outcome'])]      # a login that offers nothing usable may fail the waiting requests: the handler's fault
    if bad:
        b = bad[0]
        viol.append({'mech': 'request-lost-in-reauthentication' if noticed else 'request-failed', 'msg': f"request #{b['j']} of requester {b['w']} (started t={b['t0']}) ended with {b['outcome']!r}; "
                     f"tokens revoked and noticed: {noticed}; logins: {[(l['t0'], l['t1']) for l in logins]}", 'witness': {'failed': bad[:5], 'logins': logins}})
    expected_logins = len(noticed) + (1 if case['start_empty'] else 0)
    if len(logins) != expected_logins and not bad and not stale:
        viol.append({'mech': 'reauthentication-count', 'msg': f"{len(logins)} login activities for {len(noticed)} revoked-and-noticed tokens (initially empty vault: {case['start_empty']}); exactly one each is expected",
                     'witness': {'logins': logins, 'first401': first401}})
    # a revoked token is never presented again once its first 401 has been answered and the replacement login has finished
    for tok, t401 in first401.items():
        repl = next((l for l in logins if l['t0'] >= t401 - 1e-9 and l['t1'] is not None), None)
        late = [r for r in kube.requests if r.client == tok and r.t > (repl['t1'] if repl else float('inf')) + 1e-9]
        if late:
            viol.append({'mech': 'revoked-credentials-reused', 'msg': f"token {tok} got its first 401 at t={t401}, its replacement was ready at t={repl['t1']}, yet {len(late)} request(s) were sent with it afterwards (first at t={late[0].t})",
                         'witness': None})
            break
    cov['blocked_requests_resumed'] = sum(1 for r in results if r['outcome'] == 'ok' and any(r['t0'] <= t <= (r['t1'] or 0) for t in first401.values()))
    sig = hashlib.sha1(repr((case['workers'], case['revocations'], case['login_delay'], [(round(l['t0'], 3)) for l in logins], len(results))).encode()).hexdigest()[:16]
    return {'violations': viol, 'cov': cov, 'sig': sig, 'nontrivial': bool(noticed),
            'sample': {'workers': case['workers'], 'revocations': case['revocations'], 'logins': logins, 'requests': len(results)} if case['name'] == 'reauth0' else None}


# ------------------------------------------------------------------------------------------
def run_contain(case: dict[str, Any]) -> dict[str, Any]:
    from kv.monitors import Stall
    from kv.oracles import Index
    from kv.world import run_world
    Stall.take_hits()
    fault = case['fault']
    act = {'status500': ['status', {'status': 500}], 'status422': ['status', {'status': 422}], 'text': ['text', {'status': 200, 'text': '<html>garbage</html>'}], 'conn': ['conn', {}]}[fault]
    windows = [case['window']]
    if case['second_window']:
        t3 = round(case['window'][1] + 25.0, 3)
        windows.append([t3, round(t3 + 6.0, 3)])
    faults = [{'client': 'op1', 'match': {'kind': 'patch', 'name': 'a'}, 'window': w, 'actions': [act]} for w in windows]
    tl: list[list[Any]] = [[0.5, 'start', 'op1'], [1.0, 'create', 'a', {'spec': {'x': 0}}], [1.0, 'create', 'b', {'spec': {'x': 0}}]]
    k = 0
    pokes: list[float] = []
    for w in windows:
        k += 1
        tl.append([round(w[0] + 0.01, 3), 'edit', 'a', {'spec': {'x': 10 * k}}])
        tl.append([round(w[0] + 0.2, 3), 'edit', 'a', {'spec': {'x': 10 * k + 1}}])
        pokes.append(round(w[1] + 12.0, 3))
        tl.append([pokes[-1], 'edit', 'a', {'spec': {'x': 10 * k + 5}}])
    for j, t in enumerate(case['edits_b']):
        tl.append([t, 'edit', 'b', {'spec': {'x': j + 1}}])
    if case.get('flood'):
        for w_ in windows:
            tf = w_[0] + 0.3
            n_f = 0
            while tf < w_[1] + 3.0 and n_f < 60:
                n_f += 1
                tl.append([round(tf, 3), 'edit', 'a', {'spec': {'y': round(tf, 3)}}])
                tf += case['flood']
    tl.sort(key=lambda x: x[0])
    desc = {'seed': case['seed'], 'handlers': [{'kind': 'create', 'id': 'c1'}, {'kind': 'update', 'id': 'u1'}], 'timeline': tl, 'faults': faults, 'quiet': 30.0, 'horizon': 600.0,
            'latency': 0.001, 'settings': {'networking__error_backoffs': [0.1, 0.2], 'queueing__error_delays': list(case['error_delays']), 'persistence__consistency_timeout': 0.5,
                                           'queueing__idle_timeout': 1.0}}
    w = run_world(desc)
    ix = Index(w)
    viol: list[dict[str, Any]] = []
    cov = {k: 0 for k in GATES}
    cov['contain_cases'] = 1
    for s in Stall.take_hits():
        viol.append({'mech': 'stall', 'msg': 'event loop stalled', 'witness': s})
    inc = w.incs['op1']
    if inc.exc is not None or (inc.t_end is not None and inc.t_stop_requested is None):
        viol.append({'mech': 'operator-stopped-by-infrastructure-error', 'msg': f"kopf.operator() ended (exc={inc.exc!r}) at t={inc.t_end} because of faults on one object's requests", 'witness': None})
    delays = list(case['error_delays'])
    uid_b = next((u for u, vs in w.history.items() if vs[0]['body']['metadata']['name'] == 'b'), None)
    uid_a = next((u for u, vs in w.history.items() if vs[0]['body']['metadata']['name'] == 'a'), None)
    # processing attempts on object 'a' as the server saw them: failing rounds (runs of failing PATCH attempts less than a request backoff apart) and successes
    pa = [r for r in w.requests if r.client == 'op1' and r.kind == 'patch' and r.name == 'a']
    steps: list[dict[str, Any]] = []
    n_att = 3 if fault in ('status500', 'conn') else 1
    for r in pa:
        failed = bool(r.fault and ('status' in r.fault or 'text' in r.fault or 'conn' in r.fault))
        if failed and steps and steps[-1]['failed'] and len(steps[-1]['reqs']) < n_att and r.t - steps[-1]['reqs'][-1].t <= 0.25:
            steps[-1]['reqs'].append(r)      # one cycle = one request with its retries (error_backoffs=[0.1, 0.2]: 3 attempts of a retryable fault)
        elif not failed and steps and steps[-1]['failed'] and len(steps[-1]['reqs']) < n_att and r.t - steps[-1]['reqs'][-1].t <= 0.25:
            steps[-1]['reqs'].append(r)      # ... whose last retry got through (the fault window ended in between): that request, and its cycle, succeeded
            steps[-1]['failed'] = False
        else:
            steps.append({'failed': failed, 'reqs': [r]})
    rounds = [st['reqs'] for st in steps if st['failed']]
    consecutive = 0
    for k2, st in enumerate(steps):
        if not st['failed']:
            consecutive = 0
            continue
        consecutive += 1
        if k2 + 1 >= len(steps):
            break
        cov['throttle_rounds'] += 1
        end = st['reqs'][-1].t_end or st['reqs'][-1].t
        gap = steps[k2 + 1]['reqs'][0].t - end
        want = delays[min(consecutive - 1, len(delays) - 1)] if delays else 0.0
        if gap < want - 0.05:
            viol.append({'mech': 'error-delay-too-short', 'msg': f"object a: after its error #{consecutive} in a row (t={round(end, 3)}) the next processing attempt came {round(gap, 3)}s later; "
                                                                 f"error_delays={delays} asks for {want}s", 'witness': {'steps': [[st2['failed'], [(r.t, r.status) for r in st2['reqs']]] for st2 in steps]}})
            break
        # an event that arrives during the pause is processed right when the pause ends (so a delay grown beyond the configured one shows)
        pending = [op for op in tl if op[1] == 'edit' and op[2] == 'a' and end < op[0] < end + want]
        if delays and pending and gap > want + 0.3:
            viol.append({'mech': 'error-delay-too-long', 'msg': f"object a: after its error #{consecutive} in a row since the last success (t={round(end, 3)}) an edit arrived at t={pending[0][0]}, yet the next processing "
                                                                f"attempt came only {round(gap, 3)}s later; error_delays={delays} asks for {want}s", 'witness': {'steps': [[st2['failed'], [(r.t, r.status) for r in st2['reqs']]] for st2 in steps]}})
            break
    # the neighbour is not delayed
    for j, t in enumerate(case['edits_b']):
        calls = [c for c in ix.calls if c['uid'] == uid_b and c['h'] == 'u1' and (c.get('spec') or {}).get('x') == j + 1]
        if [t2 for t2 in case['edits_b'] if t < t2 <= t + 0.6]:
            continue
        cov['neighbour_calls'] += 1
        if not calls or calls[0]['t'] > t + 0.6:
            viol.append({'mech': 'neighbour-object-delayed', 'msg': f"object b edited at t={t} (x={j + 1}): its update handler ran at {calls[0]['t'] if calls else 'never'}, while object a's requests were failing in {windows}",
                         'witness': None})
            break
    # recovery: (1) an event for 'a' that arrives after the errors have stopped and the pause is over is handled at once;
    #           (2) the change whose cycle failed is handled again after the pause WITHOUT waiting for an unrelated event
    for wi, win in enumerate(windows):
        x_poke = 10 * (wi + 1) + 5
        t_poke = pokes[wi]
        last_fail_end = max([(rd[-1].t_end or rd[-1].t) for rd in rounds if rd[0].t <= t_poke] or [0.0])
        cov['recoveries'] += 1
        calls = [c for c in ix.calls if c['uid'] == uid_a and c['h'] == 'u1' and (c.get('spec') or {}).get('x') == x_poke and c['seq'] in ix.rets]
        bound = max(t_poke, last_fail_end + (max(delays) if delays else 0.0)) + 0.6
        if not calls or calls[0]['t'] > bound:
            viol.append({'mech': 'no-recovery-after-errors', 'msg': f"object a: edited at t={t_poke} (x={x_poke}), after the faults of {win} had stopped (last failure at t={round(last_fail_end, 3)}, error_delays={delays}): "
                                                                     f"handled at {calls[0]['t'] if calls else 'never'}, expected by t={round(bound, 3)}", 'witness': None})
            continue
        x_last = 10 * (wi + 1) + 1
        done = [c for c in ix.calls if c['uid'] == uid_a and c['h'] == 'u1' and (c.get('spec') or {}).get('x') == x_last and c['seq'] in ix.rets]
        persisted = any(r.status == 200 and not r.fault and win[0] <= r.t < t_poke and 'last-handled' in repr(r.payload) and f'"x":{x_last}' in repr(r.payload) for r in pa)
        failed_here = any(win[0] <= rd[0].t <= win[1] for rd in rounds)
        if failed_here and not persisted:
            viol.append({'mech': 'failed-cycle-not-retried-after-throttle', 'msg': f"object a: the change x={x_last} was being processed when the requests failed ({win}); after the error delay nothing re-processed it: "
                                                                                    f"its handling was not persisted until the unrelated edit at t={t_poke}", 'witness': None})
    sig = hashlib.sha1(repr((fault, delays, [len(rd) for rd in rounds], [round(rd[0].t, 2) for rd in rounds])).encode()).hexdigest()[:16]
    return {'violations': viol, 'cov': cov, 'sig': sig, 'nontrivial': len(rounds) >= 2,
            'sample': {'fault': fault, 'error_delays': delays, 'windows': windows, 'rounds': [[round(r.t, 3) for r in rd] for rd in rounds][:6]} if case['name'] == 'contain0' else None}


def run_reauth_operator(case: dict[str, Any]) -> dict[str, Any]:
    from kv.monitors import Stall
    from kv.oracles import Index
    from kv.world import run_world
    Stall.take_hits()
    desc = copy_desc(case['desc'])
    # the timer (if any) ends its writes before the run is judged quiet
    w = run_world(desc)
    ix = Index(w)
    viol: list[dict[str, Any]] = []
    cov = {k: 0 for k in GATES}
    cov['reauth_operator_runs'] = 1
    for s in Stall.take_hits():
        viol.append({'mech': 'stall', 'msg': 'event loop stalled', 'witness': s})
    inc = w.incs['op1']
    if inc.exc is not None or (inc.t_end is not None and inc.t_stop_requested is None):
        viol.append({'mech': 'operator-stopped-by-infrastructure-error', 'msg': f"kopf.operator() ended (exc={inc.exc!r}) at t={inc.t_end} after its credentials were revoked although a login handler hands out fresh ones", 'witness': None})
    reqs = [r for r in w.requests if r.client == 'op1']
    noticed = sorted({r.token for r in reqs if r.status == 401 and r.token})
    logins = [c for c in ix.calls if c['inc'] == 'op1' and c['kind'] == 'login']
    login_done = {ix.rets[c['seq']].get('token'): ix.rets[c['seq']]['t'] for c in logins if c['seq'] in ix.rets}
    cov['logins'] = len(logins)
    if len(logins) != len(noticed) and inc.exc is None:
        viol.append({'mech': 'reauthentication-count', 'msg': f"{len(logins)} login activities for {len(noticed)} revoked-and-noticed tokens {noticed} (at t={[round(c['t'], 3) for c in logins]})", 'witness': None})
    # a revoked token is not presented again once its replacement is ready
    order = [f'op1-tok{k}' for k in range(len(logins) + 1)]
    for k, tok in enumerate(order[:-1]):
        nxt = order[k + 1]
        if tok in noticed and nxt in login_done:
            late = [r for r in reqs if r.token == tok and r.t > login_done[nxt] + 1e-9]
            if late:
                viol.append({'mech': 'revoked-credentials-reused', 'msg': f"token {tok} was answered 401; its replacement {nxt} was ready at t={login_done[nxt]}; {len(late)} request(s) still carried {tok} afterwards "
                                                                         f"(first: {late[0].method} {late[0].path} at t={late[0].t})", 'witness': None})
                break
    cov['blocked_requests_resumed'] = sum(1 for tok, t1 in login_done.items() for r in reqs if r.token == tok and t1 <= r.t <= t1 + 0.5)
    # recovery: every object's last edit has been handled, and the objects are watched with valid credentials at the end
    if w.quiesced and inc.exc is None:
        for nm, x in case['last'].items():
            uid = next((u for u, vs in w.history.items() if vs[0]['plural'] == 'kopfexamples' and vs[0]['body']['metadata']['name'] == nm), None)
            done = [c for c in ix.calls if c['uid'] == uid and c['h'] == 'u1' and (c.get('spec') or {}).get('x') == x and c['seq'] in ix.rets]
            cov['recoveries'] += 1
            if not done:
                viol.append({'mech': 'change-lost-in-reauthentication', 'msg': f"object {nm}: its last edit (spec.x={x}) was never handled by the update handler although the operator re-authenticated "
                                                                              f"(revoked and noticed: {noticed}, logins at {[round(c['t'], 3) for c in logins]})", 'witness': None})
                break
        t_q = w.t_quiesced or 0.0
        open_now = [s for s in w.sim.kube.streams if s.client.name == 'op1' and s.plural == 'kopfexamples' and s.opened <= t_q and (s.closed_at is None or s.closed_at >= t_q - 1e-9)]
        if not open_now or any(s.client.token in w.sim.kube.revoked_tokens for s in open_now):
            viol.append({'mech': 'not-watching-after-reauthentication', 'msg': f"at quiescence (t={t_q}) the operator has {len(open_now)} open watch stream(s) for kopfexamples with valid credentials "
                                                                              f"(tokens: {[s.client.token for s in open_now]}; revoked: {sorted(w.sim.kube.revoked_tokens)})", 'witness': None})
    elif not w.quiesced:
        viol.append({'mech': 'no-quiescence', 'msg': 'the operator kept sending requests until the horizon after its credentials were revoked', 'witness': None})
    sig = hashlib.sha1(repr((noticed, [round(c['t'], 2) for c in logins], len(reqs) // 10)).encode()).hexdigest()[:16]
    return {'violations': viol, 'cov': cov, 'sig': sig, 'nontrivial': bool(noticed),
            'sample': {'revoked_and_noticed': noticed, 'logins': [round(c['t'], 3) for c in logins], 'requests': len(reqs), 'unauthorized': sum(1 for r in reqs if r.status == 401)} if case['name'] == 'reauthop0' else None}


def copy_desc(d: dict[str, Any]) -> dict[str, Any]:
    import copy
    return copy.deepcopy(d)


def run_case(case: dict[str, Any]) -> dict[str, Any]:
    if case['type'] == 'reauth_op':
        return run_reauth_operator(case)
    if case['type'] == 'retry':
        return run_retry(case)
    if case['type'] == 'reauth':
        return run_reauth(case)
    return run_contain(case)

"""
C03 -- level-triggered convergence across changes, restarts, kills and downtime.
"""
from __future__ import annotations

import copy
import hashlib
import random
from typing import Any

ID = 'C03'
LEVEL = 'exploration'
STALL = True
TIMEOUT_PER_CASE = 120.0
TECHNIQUE = ('runtime monitoring: bounded-liveness oracle at quiescence over the fake API server\'s final object states and the recorded handler '
             'views (independent essence function), on whole-operator runs with external change histories, downtimes, graceful restarts and kills')
LEVEL_TEXT = ('"Eventually" is restated as bounded progress in virtual time: after the last external change and the last scripted failure the run continues until no '
              'request was seen for a window longer than every configured delay, capped by a horizon; hitting the horizon is a violation. Held on the explored '
              'histories (creates/edits/deletes, operator downtime with edits in between, graceful stops, kills before/after an applied write, finite failure '
              'scripts, watch lag). Histories are sampled, not enumerated.')
LEVEL_NOTE = ('Escalated API failures are excluded here (C12). The essence is computed independently for spec/labels/annotations bodies. Known finding: an essential '
              'change that lands mid-cycle after a sibling handler already finished is absorbed into the last-handled state without that handler seeing it.')
RULE = ("histories: 1-2 objects, 0-6 external changes at random and cycle-aligned instants, 0-2 restarts with downtime (edits may fall into it), optional kill at a "
        "random write (before/after it is applied) with automatic restart, optional pause by a higher-priority peer, optional worker_limit=1, optional daemons, optional watch-stream breaks (resume or re-listing); non-trivial = a change during downtime, a kill, or >=2 essential changes; distinct = hash of "
        "(handler ids+outcomes sequence, incarnations)")
ASSUMPTIONS = ["fake API server semantics", "watch echo lag below the consistency timeout", "quiescence window > max scripted delay + consistency timeout + idle timeout"]
GATES = {'quiescent_runs': 50, 'downtime_edit_runs': 5, 'kill_runs': 5, 'objects_checked': 50, 'accumulated_change_checks': 3, 'paused_runs': 10, 'worker_limited_runs': 10, 'stream_break_runs': 10}


def directed() -> list[dict[str, Any]]:
    base = {'settings': {'queueing__idle_timeout': 1.0, 'persistence__consistency_timeout': 2.0, 'execution__default_backoff': 1.5}, 'quiet': 25.0, 'horizon': 500.0}
    H = [{'kind': 'create', 'id': 'c1', 'script': [['temp', 1], ['ok']]}, {'kind': 'update', 'id': 'u1', 'script': [['arb'], ['ok']]},
         {'kind': 'update', 'id': 'u2', 'script': [['temp', 2], ['ok']]}, {'kind': 'delete', 'id': 'd1', 'script': [['temp', 1], ['ok']]}]
    out = []
    # three edits during downtime -> one accumulated update
    out.append(dict(base, name='downtime3', handlers=H, timeline=[[0, 'start', 'op1'], [1, 'create', 'a', {'spec': {'x': 0}}], [8, 'stop_wait', 'op1'],
               [9, 'edit', 'a', {'spec': {'x': 1}}], [10, 'edit', 'a', {'metadata': {'labels': {'l': 'v'}}}], [11, 'edit', 'a', {'spec': {'x': 3}}], [12, 'start', 'op2']]))
    # created and deleted-with-finalizer across a downtime
    out.append(dict(base, name='downtime-delete', handlers=H, timeline=[[0, 'start', 'op1'], [1, 'create', 'a', {'spec': {'x': 0}}], [8, 'stop_wait', 'op1'],
               [9, 'delete', 'a'], [9.5, 'create', 'b', {'spec': {'x': 5}}], [12, 'start', 'op2']]))
    # mid-cycle essential change after a finished sibling (the known limitation)
    out.append(dict(base, name='midcycle', lifecycle='one_by_one', handlers=[{'kind': 'create', 'id': 'c1'}, {'kind': 'update', 'id': 'u1'},
               {'kind': 'update', 'id': 'u2', 'script': [['temp', 3], ['ok']]}], timeline=[[0, 'start', 'op1'], [1, 'create', 'a', {'spec': {'x': 0}}],
               [5, 'edit', 'a', {'spec': {'x': 1}}], [6.5, 'edit', 'a', {'spec': {'x': 2}}]]))
    # a daemon that exits on its own (the finalizer is not needed any more) while a change handler still awaits its retry
    out.append(dict(base, name='daemon-exit-pending-retry', handlers=[{'kind': 'create', 'id': 'c1', 'script': [['arb'], ['ok']], 'opts': {'backoff': 2.0}},
               {'kind': 'daemon', 'id': 'dm', 'persona': {'type': 'selfexit', 'after': 1.0}}], timeline=[[0, 'start', 'op1'], [1, 'create', 'a', {'spec': {'x': 0}}]]))
    out.append(dict(base, name='daemon-exit-pending-retry2', handlers=[{'kind': 'create', 'id': 'c1'}, {'kind': 'update', 'id': 'u1', 'script': [['temp', 3], ['ok']]},
               {'kind': 'daemon', 'id': 'dm', 'persona': {'type': 'selfexit', 'after': 5.5}}], timeline=[[0, 'start', 'op1'], [1, 'create', 'a', {'spec': {'x': 0}}], [4, 'edit', 'a', {'spec': {'x': 1}}]]))
    return out


def gen_cases(tier: str, seed: int):
    from kv.checks import c02
    rng = random.Random(f'C03-{seed}')
    cases: list[dict[str, Any]] = []
    for d in directed():
        cases.append({'name': d['name'], 'desc': d})
        for mode in ('kill_before', 'kill_after'):
            for k in (2, 3, 5, 7):
                dd = copy.deepcopy(d)
                dd['faults'] = [{'client': 'op1', 'match': {'kind': 'patch', 'plural': 'kopfexamples'}, 'nth': k, 'actions': [[mode, {}]]}]
                dd['restart_after_kill'] = {'delay': 2.0, 'max': 1}
                dd['timeline'] = [op for op in dd['timeline'] if op[1] not in ('stop_wait',) and not (op[1] == 'start' and op[2] != 'op1')]
                cases.append({'name': f"{d['name']}-{mode}{k}", 'desc': dd})
    # a pause by a higher-priority peer begins while an update cycle is open (a slow attempt has just failed and is recorded) and an event
    # of the object waits behind it: nothing of that cycle may be left on the object in the end (found by the thorough tier, seed 10)
    for ct in (0.5, 1.0, 2.0):
        for storage, prefix, resources in (('smart', 'op2.example.org', 'kex_s'), ('default', None, 'kex'), ('status', None, 'kex_s')):
            cases.append({'name': f'pause-under-open-cycle-{storage}-ct{ct}', 'desc': {
                'seed': 1, 'handlers': [{'kind': 'create', 'id': 'c1'}, {'kind': 'update', 'id': 'u1', 'script': [['slow', 1.5, ['temp', 1]], ['ok']]}],
                'storage': storage, 'prefix': prefix, 'resources': resources,
                'settings': {'queueing__idle_timeout': 5.0, 'persistence__consistency_timeout': ct, 'execution__default_backoff': 1.5},
                'timeline': [[0.5, 'create', 'o0', {'spec': {'x': 0}}], [2.0, 'start', 'op1'], [9.7, 'edit', 'o0', {'spec': {'x': 2}}], [10.4, 'edit', 'o0', {'status': {'foreign': 2}}],
                             [11.044, 'peer', 'boss', 100, 60], [15.044, 'unpeer', 'boss']],
                'quiet': 25.0, 'horizon': 600.0, 'peering': {'name': 'default'}}})
    n = 600 if tier == 'quick' else 25000
    for i in range(n):
        d = c02.random_desc(rng, i)
        d['quiet'] = 25.0
        if rng.random() < 0.4:
            add_downtime_edits(rng, d)
        if rng.random() < 0.15:
            # fewer workers than objects: a worker that sleeps out a retry delay keeps its slot; the others must still be served in the end
            d.setdefault('settings', {})['queueing__worker_limit'] = 1
        if rng.random() < 0.3:
            # background handlers whose coming and going adds/removes the finalizer while change handlers are in progress
            d['handlers'].append({'kind': 'daemon', 'id': 'dm', 'persona': rng.choice([{'type': 'selfexit', 'after': rng.choice([0.5, 2.0, 5.0])}, {'type': 'obedient'}]),
                                  'opts': rng.choice([{}, {'labels': {'l': 'v0'}}])})
            d.setdefault('settings', {})['background__cancellation_polling'] = 2.0
            # before fix dcf2609 kopf re-ran finished deletion handlers at API speed while daemons were stopping (DESIGN O1): with requests
            # of 1 us that is a million cycles per virtual second; 5 ms per request keeps such runs (e.g. of a tree that reverts it) finite
            d['latency'] = 0.005
        if rng.random() < 0.2 and not any(op[1] in ('stop_wait',) for op in d['timeline']) and not d.get('faults'):
            # a pause imposed by a higher-priority peer somewhere in the history: whatever changed or was in progress meanwhile is caught up afterwards
            d['peering'] = {'name': 'default'}
            ts = [op[0] for op in d['timeline']]
            t1 = round(rng.uniform(min(ts) + 0.5, max(ts) + 2.0), 3)
            t2 = round(t1 + rng.choice([0.3, 2.0, 7.0]), 3)
            d['timeline'] = sorted(d['timeline'] + [[t1, 'peer', 'boss', 100, 60], [t2, 'unpeer', 'boss']], key=lambda x: x[0])
        if rng.random() < 0.25:
            # the watch stream breaks (and is resumed or re-listed) somewhere in the history: what was in progress goes on, what changed meanwhile is caught up
            ts = [op[0] for op in d['timeline']]
            extra: list[list[Any]] = []
            for _ in range(rng.randint(1, 3)):
                tb = round(rng.uniform(min(ts) + 0.2, max(ts) + 3.0), 3)
                kind = rng.choice(['eof', 'conn', '410', 'timeout', 'payload'])
                if kind == '410' or rng.random() < 0.3:
                    extra.append([tb, 'compact'])
                extra.append([round(tb + 0.001, 3), 'break', kind])
            d['timeline'] = sorted(d['timeline'] + extra, key=lambda x: x[0])
            d.setdefault('settings', {})['watching__reconnect_backoff'] = rng.choice([0.1, 1.0])
        cases.append({'name': f'rnd{i}', 'desc': d})
    return cases


def add_downtime_edits(rng: random.Random, d: dict[str, Any]) -> None:
    """Place 1-3 essential edits between a stop and the following start."""
    tl = d['timeline']
    names = sorted({op[2] for op in tl if op[1] == 'create'})
    for i, op in enumerate(tl):
        if op[1] == 'stop_wait' and i + 1 < len(tl):
            nxt = next((o for o in tl[i + 1:] if o[1] == 'start'), None)
            if nxt is None:
                continue
            lo, hi = op[0], nxt[0]
            if hi - lo < 0.05:
                continue
            for k in range(rng.randint(1, 3)):
                t = round(rng.uniform(lo + 0.01, hi - 0.01), 3)
                tl.append([t, 'edit', rng.choice(names), {'spec': {'x': 100 + k}}])
    tl.sort(key=lambda x: x[0])


def run_case(case: dict[str, Any]) -> dict[str, Any]:
    from kv.monitors import Stall
    from kv.oracles import CHANGING, Index, oracle_convergence, trace_lines
    from kv.refmodels import essence, json_eq_mod_null
    from kv.world import run_world

    Stall.take_hits()
    desc = case['desc']
    w = run_world(desc)
    ix = Index(w)
    viol = oracle_convergence(w, ix)
    for s in Stall.take_hits():
        viol.append({'mech': 'stall', 'msg': 'event loop stalled', 'witness': s})
    cov: dict[str, int] = {'quiescent_runs': int(bool(w.quiesced)), 'kill_runs': int(bool(ix.kills)), 'objects_checked': len(ix.uids) if w.quiesced else 0}
    # (f) changes made while no operator was running are handled as ONE accumulated change
    downs = []
    evs = [e for e in w.events if e['k'] == 'op']
    for e in evs:
        if e['what'] == 'exit':
            nxt = next((x for x in evs if x['g'] > e['g'] and x['what'] == 'start'), None)
            if nxt is not None and not any(x['what'] == 'start' and x['g'] < e['g'] and not any(y['what'] == 'exit' and y['inc'] == x['inc'] and y['g'] <= e['g'] for y in evs) for x in evs):
                downs.append((e['g'], nxt['g'], nxt['inc']))
    sv = ix.sv
    acc = 0
    edits_in_down = 0
    for g0, g1, inc in downs:
        for uid in ix.uids:
            vs = w.history[uid]
            before = [v for v in vs if v['g'] < g0]
            during = [v for v in vs if g0 < v['g'] < g1 and v['writer'] in ('actor', 'slip')]
            if not before or not during or before[-1]['type'] == 'DELETED' or during[-1]['type'] == 'DELETED':
                continue
            b0 = before[-1]['body']
            if b0['metadata'].get('deletionTimestamp') or during[-1]['body']['metadata'].get('deletionTimestamp'):
                continue
            e0 = essence(b0, (sv.prefix,))
            if sv.any_progress_keys(b0) or not json_eq_mod_null(sv.diffbase(b0), e0):
                continue   # was not fully handled before the downtime
            e1 = essence(during[-1]['body'], (sv.prefix,))
            if json_eq_mod_null(e0, e1):
                continue
            edits_in_down += 1
            later_ext = [v for v in vs if v['g'] > g1 and v['writer'] in ('actor', 'slip')]
            ucalls = [c for c in ix.calls if c['uid'] == uid and c['g'] > g1 and c['kind'] == 'update' and not c.get('post_mortem')]
            if later_ext or not any(h['kind'] == 'update' for h in desc['handlers']) or any(i.killed for i in w.incs.values()):
                continue
            acc += 1
            if not ucalls:
                viol.append({'mech': 'downtime-change-not-handled', 'msg': f'{uid}: changed while no operator was running, but no update handler ran after the restart', 'witness': None})
                continue
            first = ucalls[0]
            if not json_eq_mod_null(first.get('old'), e0) or not json_eq_mod_null(first.get('new'), e1):
                viol.append({'mech': 'downtime-change-not-accumulated', 'msg': f"{uid}: {len(during)} change(s) during downtime; the update handler got old={first.get('old')!r} "
                             f"new={first.get('new')!r}, expected the state before the downtime {e0!r} and the final state {e1!r}", 'witness': None})
            closes = [cw for cw in ix.closing_writes(uid) if cw.g > g1]
            if len(closes) > 1:
                viol.append({'mech': 'downtime-change-not-accumulated', 'msg': f'{uid}: the changes made during one downtime were handled in {len(closes)} update cycles', 'witness': None})
    cov['downtime_edit_runs'] = int(edits_in_down > 0)
    cov['accumulated_change_checks'] = acc
    cov['paused_runs'] = int(any(e['k'] == 'note' and e['what'] == 'toggle' and e.get('to') is True for e in w.events))
    cov['stream_break_runs'] = int(any(op[1] == 'break' for op in desc['timeline']))
    cov['worker_limited_runs'] = int(bool((desc.get('settings') or {}).get('queueing__worker_limit')))
    changing = [c for c in ix.calls if c['kind'] in CHANGING]
    incs = sorted({c['inc'] for c in changing})
    order = ';'.join(f"{c['h']}:{ix.rets.get(c['seq'], {}).get('outcome')}:{incs.index(c['inc'])}" for c in changing)
    sig = hashlib.sha1(order.encode()).hexdigest()[:16]
    ext = sum(1 for uid in ix.uids for v in w.history[uid] if v['writer'] == 'actor')
    sample = None
    if case['name'] in ('downtime3', 'rnd0'):
        sample = {'name': case['name'], 'timeline': desc['timeline'], 'trace_tail': trace_lines(w)[-12:]}
    return {'violations': viol, 'cov': cov, 'sig': sig, 'nontrivial': bool(ix.kills) or edits_in_down > 0 or ext >= 3, 'sample': sample,
            'trace': trace_lines(w) if case.get('_verbose') else None}

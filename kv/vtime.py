"""
Virtual time: a looptime event loop plus a virtual wall clock for kopf.

kopf reads the wall clock (``datetime.datetime.now``) for persisted handler timestamps,
peering keep-alives, touch values, credential expiry. Under a discrete-event loop the real wall
clock stands still while ``loop.time()`` jumps, so ``delayed`` handlers would never wake.
The module-level name ``datetime`` of those kopf modules is rebound to a shim whose
``datetime.datetime.now(tz)`` returns EPOCH + loop.time().
"""
from __future__ import annotations

import asyncio
import datetime as _dt
import types
from typing import Any

import looptime

EPOCH = _dt.datetime(2030, 1, 1, tzinfo=_dt.timezone.utc)

_SHIMMED = (
    'kopf._core.actions.progression',
    'kopf._core.actions.application',
    'kopf._core.engines.peering',
    'kopf._core.engines.probing',
    'kopf._cogs.structs.credentials',
    'kopf._cogs.clients.events',
)


def vnow() -> _dt.datetime:
    try:
        t = asyncio.get_running_loop().time()
    except RuntimeError:
        t = 0.0
    return EPOCH + _dt.timedelta(seconds=t)


class VDateTime(_dt.datetime):
    @classmethod
    def now(cls, tz=None):  # type: ignore[override]
        r = vnow()
        return r.astimezone(tz) if tz is not None else r.replace(tzinfo=None)

    @classmethod
    def utcnow(cls):  # type: ignore[override]
        return vnow().replace(tzinfo=None)


class VTouchDateTime(VDateTime):
    """
    For kopf._core.actions.application only (the touch-dummy value): strictly increasing per call.
    A real wall clock always moves between two consecutive touches; the virtual one stands still during zero-time
    computations, which would make two touches write the same value (a no-op write, no event, handling stalls) --
    an artefact of virtual time, not a behaviour of the code under test.
    """
    _last: _dt.datetime | None = None

    @classmethod
    def now(cls, tz=None):  # type: ignore[override]
        r = vnow()
        if VTouchDateTime._last is not None and r <= VTouchDateTime._last:
            r = VTouchDateTime._last + _dt.timedelta(microseconds=1)
        VTouchDateTime._last = r
        return r.astimezone(tz) if tz is not None else r.replace(tzinfo=None)


_shim = types.ModuleType('datetime')
_shim.__dict__.update({k: getattr(_dt, k) for k in dir(_dt) if not k.startswith('__')})
_shim.datetime = VDateTime  # type: ignore[attr-defined]
_touch_shim = types.ModuleType('datetime')
_touch_shim.__dict__.update({k: getattr(_dt, k) for k in dir(_dt) if not k.startswith('__')})
_touch_shim.datetime = VTouchDateTime  # type: ignore[attr-defined]

_installed = False


def install() -> int:
    """
    Rebind ``datetime`` in the kopf modules which read the wall clock. Returns how many were rebound.

    Besides the modules known to read the clock at the pinned commit, EVERY loaded ``kopf.*`` module which holds the
    ``datetime`` module (or the ``datetime.datetime`` class, via a from-import) under any name is rebound, so that an
    innocent edit of kopf (a clock read moved to another module, another import style) does not silently put a part of
    the operator back on the frozen real clock -- which would show as false alarms, not as a harness error.
    """
    global _installed
    import importlib
    import sys
    n = 0
    for name in _SHIMMED:
        try:
            importlib.import_module(name)
        except Exception:
            continue
    try:
        import kopf  # noqa: F401  -- brings in all of its core modules
    except Exception:
        pass
    for name, mod in list(sys.modules.items()):
        if not (name == 'kopf' or name.startswith('kopf.')) or mod is None:
            continue
        for attr, val in list(vars(mod).items()):
            if val is _dt:
                setattr(mod, attr, _touch_shim if name.endswith('.application') else _shim)
                n += 1
            elif val is _dt.datetime:
                setattr(mod, attr, VTouchDateTime if name.endswith('.application') else VDateTime)
                n += 1
    _installed = True
    return n


def new_loop(start: float = 0.0) -> asyncio.AbstractEventLoop:
    """
    A looptime loop whose timers are quantized (upwards) to the loop's 1us resolution.

    Without it a timer set a sub-resolution moment ahead (float noise such as ``deadline - loop.time()``
    == 2e-16) never fires: looptime advances the clock by round(step/resolution) == 0 forever.
    That would be an artefact of the virtual clock, not of the code under test.
    """
    import math
    VTouchDateTime._last = None
    loop = looptime.new_event_loop(start=start)
    orig_call_at = loop.call_at

    def call_at(when: float, callback, *args, context=None):  # type: ignore[no-untyped-def]
        q = math.ceil(when * 1_000_000 - 1e-3) / 1_000_000
        return orig_call_at(q, callback, *args, context=context)
    loop.call_at = call_at  # type: ignore[method-assign]

    # Zero-time livelock guard. A real clock advances while code runs; the virtual one stands still until the loop is idle.
    # Code that re-arms itself on sub-microsecond float noise ("still 4e-16 s to wait") spins forever at one virtual instant,
    # yielding to the loop each time. After many loop iterations without progress of time, nudge the clock by 1us.
    orig_run_once = loop._run_once          # type: ignore[attr-defined]
    state = {'t': None, 'n': 0}

    from kv import vthreads
    vthreads.reset()
    vthreads.install(loop)

    def _run_once() -> None:
        vthreads.gate(loop)                     # handler threads (sync handlers) must be quiescent before the clock may move
        now = loop._LoopTimeEventLoop__now      # type: ignore[attr-defined]
        if now == state['t']:
            state['n'] += 1
            if state['n'] > LIVELOCK_ITERATIONS:
                # the nudge helps code that re-arms itself on sub-microsecond float noise; a task that spins on something that
                # does not depend on the clock (yielding to the loop each time) survives the nudges: after LIVELOCK_NUDGES nudges
                # in a row with nothing but the nudges moving the time, it is a livelock -- decided on loop iterations, not on wall time
                state['row'] = state.get('row', 0) + 1 if state.get('nudged_to') == now else 1
                if state['row'] >= LIVELOCK_NUDGES:
                    _report_livelock(loop, first=not state.get('reported'))      # recorded once, broken as often as it takes
                    state['reported'] = True
                    state['row'] = LIVELOCK_NUDGES - 5                          # look again 5 nudges later if the spin goes on
                # what every task awaits now: the next report compares with it (taken AFTER the report, i.e. one nudge = 5000 iterations earlier)
                _WAITERS[id(loop)] = {t: getattr(t, '_fut_waiter', None) for t in asyncio.all_tasks(loop)} if state['row'] >= LIVELOCK_NUDGES - 6 or state.get('reported') else {}
                loop._LoopTimeEventLoop__now = now + 1      # type: ignore[attr-defined]
                state['nudged_to'] = now + 1
                NUDGES['loop'] += 1
                state['n'] = 0
        else:
            state['t'] = now
            state['n'] = 0
        orig_run_once()
    loop._run_once = _run_once              # type: ignore[attr-defined]
    asyncio.set_event_loop(loop)
    return loop


LIVELOCK_ITERATIONS = 5000
LIVELOCK_NUDGES = 10          # x LIVELOCK_ITERATIONS loop iterations without the time moving by itself


def _report_livelock(loop: asyncio.AbstractEventLoop, first: bool = True) -> None:
    """A task spins for ever, yielding to the loop each time (so the stall sanitizer of single callbacks does not see it). Record who, and break it."""
    from kv.monitors import Stall
    who = []
    spinning = []
    # Which task spins cannot be read off the ready queue (it holds plain callbacks such as wait_for's waiter release). A sleeping task
    # holds one and the same future for thousands of loop iterations; a spinning one awaits a new future every few iterations:
    # compare what every task awaits now with what it awaited LIVELOCK_ITERATIONS iterations ago (snapshot taken at the previous nudge).
    before = _WAITERS.get(id(loop)) or {}
    for task in asyncio.all_tasks(loop):
        if task not in before or before[task] is getattr(task, '_fut_waiter', None) and before[task] is not None:
            continue
        try:
            frames = task.get_stack(limit=6)
            who.append(f"{task.get_name()}: " + ' <- '.join(f"{f.f_code.co_filename.rsplit('/', 2)[-1]}:{f.f_code.co_name}:{f.f_lineno}" for f in frames[-4:]))
        except Exception:
            who.append(repr(task)[:200])
        spinning.append(task)
    who = who[:6]
    if first:
        Stall.hits.append({'stack': '\n'.join(who), 'where': 'livelock: the event loop made %d iterations without the clock moving (tasks spin while yielding)' % (LIVELOCK_ITERATIONS * LIVELOCK_NUDGES)})
    for task in spinning:
        task.cancel()           # break the spin so that the run can end; the verdict has been recorded
NUDGES = {'loop': 0}
_WAITERS: dict[int, dict[Any, Any]] = {}      # task -> the future it awaited at the previous nudge (the object itself: ids are reused)


def iso(t: float) -> str:
    return (EPOCH + _dt.timedelta(seconds=t)).isoformat()


def from_iso(s: str) -> float:
    d = _dt.datetime.fromisoformat(s)
    if d.tzinfo is None:
        d = d.replace(tzinfo=_dt.timezone.utc)
    return (d - EPOCH).total_seconds()

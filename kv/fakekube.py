"""
An in-process, stateful fake Kubernetes API server at the aiohttp-session boundary.

Trusted base of the closed-loop checks (DESIGN 2.2). Nothing here imports kopf:
the merge-patch (RFC 7386) and JSON-patch (RFC 6902) appliers are written independently.

One ``FakeKube`` is the cluster. Each operator incarnation talks to it through its own
``Client`` handle (duck-typed ``aiohttp.ClientSession``), so that requests are attributable,
can be faulted per client, and a client can be "killed" (SIGKILL emulation).

No asyncio tasks are created here: delayed deliveries use ``loop.call_at`` callbacks only,
because kopf cancels every task of the loop created after its start when it exits.
"""
from __future__ import annotations

import asyncio
import copy
import itertools
import json
import re
import urllib.parse
from typing import Any, Callable

import aiohttp
from multidict import CIMultiDict

EPOCH_ISO = '2030-01-01T00:00:00Z'

# One global sequence for everything recorded (requests, server versions, handler calls): same-instant order.
GSEQ = itertools.count(1)


# --------------------------------------------------------------------------------------
# Independent RFC 7386 / RFC 6902 implementations.

def merge_patch(target: Any, patch: Any) -> Any:
    """RFC 7386. Returns a new value; does not mutate the arguments."""
    if not isinstance(patch, dict):
        return copy.deepcopy(patch)
    result = dict(target) if isinstance(target, dict) else {}
    for key, val in patch.items():
        if val is None:
            result.pop(key, None)
        else:
            result[key] = merge_patch(result.get(key), val)
    return result


class PatchError(Exception):
    pass


def _ptr(path: str) -> list[str]:
    if path == '':
        return []
    if not path.startswith('/'):
        raise PatchError(f"bad pointer {path!r}")
    return [p.replace('~1', '/').replace('~0', '~') for p in path[1:].split('/')]


def _walk(doc: Any, parts: list[str]) -> Any:
    cur = doc
    for p in parts:
        if isinstance(cur, dict):
            if p not in cur:
                raise PatchError(f"missing key {p!r}")
            cur = cur[p]
        elif isinstance(cur, list):
            if not re.fullmatch(r'0|[1-9][0-9]*', p) or int(p) >= len(cur):
                raise PatchError(f"bad index {p!r}")
            cur = cur[int(p)]
        else:
            raise PatchError(f"cannot descend into scalar at {p!r}")
    return cur


def _add(doc: Any, parts: list[str], value: Any) -> Any:
    if not parts:
        return value
    parent = _walk(doc, parts[:-1])
    last = parts[-1]
    if isinstance(parent, dict):
        parent[last] = value
    elif isinstance(parent, list):
        if last == '-':
            parent.append(value)
        else:
            if not re.fullmatch(r'0|[1-9][0-9]*', last) or int(last) > len(parent):
                raise PatchError(f"bad index {last!r}")
            parent.insert(int(last), value)
    else:
        raise PatchError("cannot add into scalar")
    return doc


def _remove(doc: Any, parts: list[str]) -> Any:
    if not parts:
        raise PatchError("cannot remove root")
    parent = _walk(doc, parts[:-1])
    last = parts[-1]
    if isinstance(parent, dict):
        if last not in parent:
            raise PatchError(f"missing key {last!r}")
        del parent[last]
    elif isinstance(parent, list):
        if not re.fullmatch(r'0|[1-9][0-9]*', last) or int(last) >= len(parent):
            raise PatchError(f"bad index {last!r}")
        del parent[int(last)]
    else:
        raise PatchError("cannot remove from scalar")
    return doc


def json_patch(doc: Any, ops: list[dict[str, Any]]) -> Any:
    """RFC 6902. Atomic: returns a new document or raises PatchError."""
    doc = copy.deepcopy(doc)
    for op in ops:
        kind = op.get('op')
        parts = _ptr(op.get('path', ''))
        if kind == 'test':
            try:
                cur = _walk(doc, parts)
            except PatchError:
                raise PatchError(f"test failed: path {op.get('path')!r} missing")
            if cur != op.get('value') or type(cur) is not type(op.get('value')) and not (
                    isinstance(cur, (int, float)) and isinstance(op.get('value'), (int, float))
                    and not isinstance(cur, bool) and not isinstance(op.get('value'), bool)):
                raise PatchError(f"test failed at {op.get('path')!r}")
        elif kind == 'add':
            doc = _add(doc, parts, copy.deepcopy(op.get('value')))
        elif kind == 'remove':
            doc = _remove(doc, parts)
        elif kind == 'replace':
            _walk(doc, parts)  # must exist
            if not parts:
                doc = copy.deepcopy(op.get('value'))
            else:
                parent = _walk(doc, parts[:-1])
                if isinstance(parent, dict):
                    parent[parts[-1]] = copy.deepcopy(op.get('value'))
                else:
                    parent[int(parts[-1])] = copy.deepcopy(op.get('value'))
        elif kind in ('move', 'copy'):
            src = _ptr(op.get('from', ''))
            val = copy.deepcopy(_walk(doc, src))
            if kind == 'move':
                doc = _remove(doc, src)
            doc = _add(doc, parts, val)
        else:
            raise PatchError(f"unknown op {kind!r}")
    return doc


# --------------------------------------------------------------------------------------
# Responses.

class _Content:
    def __init__(self, resp: "Response") -> None:
        self._resp = resp

    async def iter_chunked(self, n: int):  # noqa: ANN201
        resp = self._resp
        while True:
            item = await resp._q.get()
            if item is None:
                return
            if isinstance(item, BaseException):
                raise item
            resp.consumed += 1
            yield item


class Response:
    """What kopf's client code touches of aiohttp.ClientResponse."""

    def __init__(self, status: int = 200, payload: Any = None, headers: dict[str, str] | None = None,
                 stream: bool = False, text: str | None = None) -> None:
        self.status = status
        self._payload = payload
        self._text = text
        self.headers = CIMultiDict(headers or {})
        self.closed = False
        self._q: asyncio.Queue[Any] | None = asyncio.Queue() if stream else None
        self.content = _Content(self)
        self.on_client_close: Callable[[], None] | None = None
        self.fed: list[tuple[Any, Any, Any, Any]] = []     # (type, uid, rv, error code) of every line put on the wire, in order
        self.consumed = 0                                   # how many of them the client has actually read (the rest was in flight when it hung up)

    async def json(self) -> Any:
        if self._text is not None:
            raise aiohttp.ContentTypeError(None, (), message='not json')  # type: ignore[arg-type]
        return copy.deepcopy(self._payload)

    async def text(self) -> str:
        return self._text if self._text is not None else json.dumps(self._payload)

    def raise_for_status(self) -> None:
        if self.status >= 400:
            self.closed = True
            raise aiohttp.ClientResponseError(None, (), status=self.status, message='fake',  # type: ignore[arg-type]
                                              headers=self.headers)

    def close(self) -> None:
        if not self.closed:
            self.closed = True
            if self._q is not None:
                self._q.put_nowait(aiohttp.ClientConnectionError("closed by client"))
            if self.on_client_close is not None:
                self.on_client_close()

    def release(self) -> None:
        self.close()

    async def __aenter__(self) -> "Response":
        return self

    async def __aexit__(self, *exc: Any) -> None:
        self.close()

    # server-side
    def feed(self, obj: Any) -> None:
        if not self.closed and self._q is not None:
            self._q.put_nowait((json.dumps(obj) + '\n').encode())
            meta = (obj.get('object') or {}).get('metadata') or {} if isinstance(obj, dict) else {}
            code = (obj.get('object') or {}).get('code') if isinstance(obj, dict) and obj.get('type') == 'ERROR' else None
            self.fed.append((obj.get('type') if isinstance(obj, dict) else None, meta.get('uid'), meta.get('resourceVersion'), code))

    def eof(self) -> None:
        if not self.closed and self._q is not None:
            self._q.put_nowait(None)

    def fail(self, exc: BaseException) -> None:
        if not self.closed and self._q is not None:
            self._q.put_nowait(exc)


def status_payload(code: int, message: str, reason: str = '', details: dict[str, Any] | None = None) -> dict[str, Any]:
    p: dict[str, Any] = {'kind': 'Status', 'apiVersion': 'v1', 'status': 'Failure', 'code': code,
                         'message': message, 'reason': reason}
    if details:
        p['details'] = details
    return p


# --------------------------------------------------------------------------------------
# Resource definitions.

def resdef(group: str, version: str, plural: str, kind: str, namespaced: bool = True,
           subresources: tuple[str, ...] = (), verbs: tuple[str, ...] | None = None,
           shortnames: tuple[str, ...] = (), categories: tuple[str, ...] = ()) -> dict[str, Any]:
    return dict(group=group, version=version, plural=plural, kind=kind, namespaced=namespaced,
                subresources=tuple(subresources),
                verbs=tuple(verbs) if verbs is not None else ('list', 'watch', 'patch', 'get', 'create', 'delete', 'update'),
                shortnames=tuple(shortnames), categories=tuple(categories))


NAMESPACES = resdef('', 'v1', 'namespaces', 'Namespace', namespaced=False)
EVENTS = resdef('', 'v1', 'events', 'Event', namespaced=True)
CRDS = resdef('apiextensions.k8s.io', 'v1', 'customresourcedefinitions', 'CustomResourceDefinition', namespaced=False)
KEX = resdef('kopf.dev', 'v1', 'kopfexamples', 'KopfExample', namespaced=True, shortnames=('kex',))
KEX_S = resdef('kopf.dev', 'v1', 'kopfexamples', 'KopfExample', namespaced=True, subresources=('status',), shortnames=('kex',))
CLUSTER_PEERING = resdef('kopf.dev', 'v1', 'clusterkopfpeerings', 'ClusterKopfPeering', namespaced=False)
NS_PEERING = resdef('kopf.dev', 'v1', 'kopfpeerings', 'KopfPeering', namespaced=True)

BASE_RESOURCES = [NAMESPACES, EVENTS, CRDS]


class Request:
    __slots__ = ('idx', 'client', 'n', 't', 'method', 'path', 'query', 'payload', 'ctype', 'kind',
                 'plural', 'ns', 'name', 'sub', 'status', 'result_rv', 'landed_uid', 'fault', 't_done', 'watch',
                 'g', 'g_done', 'prev_rv', 'lost', 't_end', 'token', 'task')

    def __init__(self, **kw: Any) -> None:
        for k in self.__slots__:
            setattr(self, k, kw.get(k))

    def brief(self) -> dict[str, Any]:
        return {k: getattr(self, k) for k in ('g', 'idx', 'client', 'n', 't', 'method', 'path', 'ctype', 'status',
                                              'result_rv', 'landed_uid', 'fault', 'kind')
                if getattr(self, k) is not None} | ({'payload': self.payload} if self.payload is not None else {})


class Fault:
    """
    What to do with a request instead of/in addition to serving it.

    kind:
      'status'  -> respond with .status (and headers/details), request NOT applied
      'conn'    -> raise aiohttp.ClientConnectionError, not applied
      'timeout' -> raise asyncio.TimeoutError, not applied
      'lost'    -> applied, then raise aiohttp.ClientConnectionError (response lost)
      'latency' -> sleep .delay (virtual) before serving
      'slip'    -> call .fn(kube) right before serving (a foreign write lands in between)
      'yields'  -> .n zero-time yields before serving
      'kill_before' / 'kill_after' -> kill the client (see Client.kill) before/after applying
      'text'    -> respond with .status and a non-JSON text body
    """
    def __init__(self, kind: str, **kw: Any) -> None:
        self.kind = kind
        self.status: int = kw.get('status', 500)
        self.headers: dict[str, str] = kw.get('headers', {})
        self.details: dict[str, Any] | None = kw.get('details')
        self.delay: float = kw.get('delay', 0.0)
        self.fn: Callable[["FakeKube"], None] | None = kw.get('fn')
        self.n: int = kw.get('n', 1)
        self.text: str = kw.get('text', 'oops')

    def __repr__(self) -> str:
        return f"Fault({self.kind}" + (f",{self.status}" if self.kind in ('status', 'text') else '') + ")"


class ClientDead(aiohttp.ClientConnectionError):
    pass


class Client:
    """Duck-typed aiohttp.ClientSession bound to one FakeKube; one per operator incarnation."""

    def __init__(self, kube: "FakeKube", name: str) -> None:
        self.kube = kube
        self.name = name
        self.closed = False
        self.headers: dict[str, str] = {}
        self.n = 0                      # per-client request counter
        self.dead = False               # killed: every request fails, nothing has an effect
        self.dead_since: float | None = None
        self.on_kill: Callable[[], None] | None = None
        self.streams: list[Response] = []
        self.token: str | None = None   # for C12 (credential identity)

    async def close(self) -> None:
        self.closed = True
        for r in list(self.streams):
            r.close()

    def kill(self) -> None:
        if self.dead:
            return
        self.dead = True
        try:
            self.dead_since = asyncio.get_running_loop().time()
        except RuntimeError:
            self.dead_since = None
        for r in list(self.streams):
            r.fail(ClientDead("killed"))
        if self.on_kill is not None:
            self.on_kill()

    async def request(self, method: str, url: str, json: Any = None, headers: dict[str, str] | None = None,
                      timeout: Any = None, **kw: Any) -> Response:
        if self.closed:
            raise RuntimeError("Session is closed")
        return await self.kube._serve(self, method.upper(), url, json, headers or {}, timeout)


class WatchStream:
    def __init__(self, kube: "FakeKube", client: Client, plural: str, ns: str | None, resp: Response,
                 since: int | None, bookmarks: bool) -> None:
        self.kube = kube
        self.client = client
        self.plural = plural
        self.ns = ns
        self.resp = resp
        self.since = since
        self.bookmarks = bookmarks
        self.opened = kube.now()
        self.closed_at: float | None = None
        self.last_release = kube.now()
        self.delivered: list[tuple[float, str, str | None, str | None]] = []  # (t, type, uid, rv)
        self.delivered_rv = since or 0   # highest log seq fully delivered
        self.pending = 0
        self.queue: list[tuple[int, dict[str, Any]]] = []

    @property
    def open(self) -> bool:
        return self.closed_at is None and not self.resp.closed

    def close(self) -> None:
        if self.closed_at is None:
            self.closed_at = self.kube.now()


class FakeKube:
    def __init__(self, resources: list[dict[str, Any]] | None = None, *, namespaces: tuple[str, ...] = ('ns1',),
                 del_keep_finalizer: bool = True, del_bump_patch_rv: bool = True, rv_start: int = 1000) -> None:
        self.resources: list[dict[str, Any]] = list(BASE_RESOURCES) + list(resources or [])
        self.rv = rv_start       # resource versions are opaque strings to clients: start low to cross 99->100, 999->1000 within a run
        self.objs: dict[tuple[str, str | None, str], dict[str, Any]] = {}
        self.log: dict[str, list[tuple[int, dict[str, Any]]]] = {}
        self.compacted: dict[str, int] = {}     # plural -> watches from rv < this get 410
        self.streams: list[WatchStream] = []
        self.requests: list[Request] = []
        self.history: dict[str, list[dict[str, Any]]] = {}   # uid -> versions (each: t, rv, writer, type, body)
        self.uid_counter = itertools.count(1)
        self.clients: dict[str, Client] = {}
        self.writer = 'actor'                   # attribution of the write in progress
        self.del_keep_finalizer = del_keep_finalizer
        self.del_bump_patch_rv = del_bump_patch_rv
        # Injection hooks.
        self.revoked_tokens: set[str] = set()    # requests carrying one of these are answered 401 (checked when the response is produced)
        self.fault_fn: Callable[[Request], list[Fault] | None] | None = None
        self.lag_fn: Callable[[WatchStream, dict[str, Any]], float] | None = None
        self.post_yields = 0
        self.base_latency = 0.0     # virtual seconds every non-watch request takes (breaks zero-time livelocks of virtual time)
        self.on_event: list[Callable[[str, dict[str, Any]], None]] = []
        self._loop: asyncio.AbstractEventLoop | None = None
        for ns in namespaces:
            self.create('namespaces', None, ns, {'apiVersion': 'v1', 'kind': 'Namespace'})
        for r in self.resources:
            if r['group'] not in ('', 'apiextensions.k8s.io'):
                self._crd_object(r)

    # ----------------------------------------------------------------------------------
    def now(self) -> float:
        try:
            return asyncio.get_running_loop().time()
        except RuntimeError:
            return 0.0

    def client(self, name: str) -> Client:
        c = Client(self, name)
        self.clients[name] = c
        return c

    def find_resource(self, plural: str, group: str | None = None) -> dict[str, Any] | None:
        for r in self.resources:
            if r['plural'] == plural and (group is None or r['group'] == group):
                return r
        return None

    # ---- CRD management ----
    def _crd_object(self, r: dict[str, Any]) -> None:
        name = f"{r['plural']}.{r['group']}"
        body = {'apiVersion': 'apiextensions.k8s.io/v1', 'kind': 'CustomResourceDefinition',
                'spec': {'group': r['group'], 'names': {'plural': r['plural'], 'kind': r['kind']},
                         'scope': 'Namespaced' if r['namespaced'] else 'Cluster',
                         'versions': [{'name': r['version'], 'served': True, 'storage': True}]}}
        if ('customresourcedefinitions', None, name) in self.objs:
            self.edit('customresourcedefinitions', None, name, {'spec': body['spec']})
        else:
            self.create('customresourcedefinitions', None, name, body)

    def add_resource(self, r: dict[str, Any]) -> None:
        self.resources = [x for x in self.resources if not (x['plural'] == r['plural'] and x['group'] == r['group'])]
        self.resources.append(r)
        self._crd_object(r)

    def remove_resource(self, plural: str, group: str) -> None:
        self.resources = [x for x in self.resources if not (x['plural'] == plural and x['group'] == group)]
        name = f"{plural}.{group}"
        if ('customresourcedefinitions', None, name) in self.objs:
            self.delete('customresourcedefinitions', None, name)
        # all objects of the kind vanish; their watch streams end
        for key in [k for k in self.objs if k[0] == plural]:
            del self.objs[key]
        for s in self.streams:
            if s.plural == plural and s.open:
                s.resp.eof()
                s.close()

    # ----------------------------------------------------------------------------------
    # State mutation (server-side primitives; also used by the external actor).

    def _record(self, typ: str, body: dict[str, Any], plural: str) -> None:
        uid = body['metadata'].get('uid')
        self.history.setdefault(uid, []).append(
            {'t': self.now(), 'g': next(GSEQ), 'rv': self.rv, 'writer': self.writer, 'type': typ, 'plural': plural,
             'body': copy.deepcopy(body)})

    def _emit(self, plural: str, typ: str, body: dict[str, Any]) -> None:
        ev = {'type': typ, 'object': copy.deepcopy(body)}
        self.log.setdefault(plural, []).append((self.rv, ev))
        self._record(typ, body, plural)
        for fn in self.on_event:
            fn(plural, ev)
        for s in self.streams:
            if s.plural == plural and s.open and (s.ns is None or body['metadata'].get('namespace') == s.ns):
                self._deliver(s, self.rv, ev)

    def _deliver(self, s: WatchStream, seq: int, ev: dict[str, Any]) -> None:
        lag = self.lag_fn(s, ev) if self.lag_fn is not None else 0.0
        now = self.now()
        release = round(max(now + max(0.0, lag), s.last_release), 6)  # FIFO per stream; on the us grid
        s.last_release = release
        s.queue.append((seq, ev))

        def drain_one() -> None:
            # NB: pops the HEAD of the stream's queue: timers with equal deadlines fire in arbitrary order.
            if not s.queue:
                return
            seq1, ev1 = s.queue.pop(0)
            s.pending -= 1
            if s.open:
                s.resp.feed(ev1)
                meta = ev1['object'].get('metadata', {})
                s.delivered.append((self.now(), ev1['type'], meta.get('uid'), meta.get('resourceVersion')))
                s.delivered_rv = max(s.delivered_rv, seq1)

        s.pending += 1
        if release <= now and s.pending == 1:
            drain_one()
        else:
            loop = asyncio.get_running_loop()
            loop.call_at(release, drain_one)

    def write(self, plural: str, ns: str | None, name: str, body: dict[str, Any], *, patch_response: bool = False) -> dict[str, Any]:
        key = (plural, ns, name)
        old = self.objs.get(key)
        body = copy.deepcopy(body)
        meta = body.setdefault('metadata', {})
        for k in ('labels', 'annotations', 'finalizers'):
            if k in meta and not meta[k]:
                del meta[k]
        if old is not None:
            # immutable / server-managed fields
            for k in ('uid', 'name', 'namespace', 'creationTimestamp', 'resourceVersion', 'generation'):
                if k in old['metadata']:
                    meta[k] = old['metadata'][k]
                else:
                    meta.pop(k, None)
            if 'deletionTimestamp' in old['metadata']:
                meta['deletionTimestamp'] = old['metadata']['deletionTimestamp']
            if _strip(old) == _strip(body):
                return copy.deepcopy(old)   # no-op write: same version, no event
        self.rv += 1
        meta['resourceVersion'] = str(self.rv)
        if old is None:
            meta['uid'] = f'uid-{next(self.uid_counter)}'
            meta['name'] = name
            if ns:
                meta['namespace'] = ns
            meta['creationTimestamp'] = EPOCH_ISO
            meta['generation'] = 1
            typ = 'ADDED'
        else:
            typ = 'MODIFIED'
            if old.get('spec') != body.get('spec'):
                meta['generation'] = int(old['metadata'].get('generation', 1)) + 1
        if meta.get('deletionTimestamp') and not meta.get('finalizers'):
            # removal of the last finalizer of a marked object => really deleted
            del self.objs[key]
            event_body = copy.deepcopy(body)
            if self.del_keep_finalizer and old is not None and old['metadata'].get('finalizers'):
                event_body['metadata']['finalizers'] = list(old['metadata']['finalizers'])
            self._emit(plural, 'DELETED', event_body)
            result = copy.deepcopy(body)
            if not self.del_bump_patch_rv and old is not None:
                result['metadata']['resourceVersion'] = old['metadata']['resourceVersion']
            return result
        self.objs[key] = body
        self._emit(plural, typ, body)
        return copy.deepcopy(body)

    def create(self, plural: str, ns: str | None, name: str, body: dict[str, Any]) -> dict[str, Any]:
        if (plural, ns, name) in self.objs:
            raise KeyError("exists")
        return self.write(plural, ns, name, body)

    def get(self, plural: str, ns: str | None, name: str) -> dict[str, Any] | None:
        o = self.objs.get((plural, ns, name))
        return copy.deepcopy(o) if o is not None else None

    def edit(self, plural: str, ns: str | None, name: str, patch: dict[str, Any]) -> dict[str, Any] | None:
        """Unrestricted merge-patch by the actor (can touch status too)."""
        cur = self.objs.get((plural, ns, name))
        if cur is None:
            return None
        return self.write(plural, ns, name, merge_patch(cur, patch))

    def delete(self, plural: str, ns: str | None, name: str) -> dict[str, Any] | None:
        key = (plural, ns, name)
        cur = self.objs.get(key)
        if cur is None:
            return None
        if cur['metadata'].get('finalizers'):
            if cur['metadata'].get('deletionTimestamp'):
                return copy.deepcopy(cur)
            body = copy.deepcopy(cur)
            self.rv += 1
            body['metadata']['deletionTimestamp'] = EPOCH_ISO
            body['metadata']['resourceVersion'] = str(self.rv)
            self.objs[key] = body
            self._emit(plural, 'MODIFIED', body)
            return copy.deepcopy(body)
        # no finalizers: gone at once; the DELETED event carries the last state, no deletion mark
        del self.objs[key]
        self.rv += 1
        body = copy.deepcopy(cur)
        body['metadata']['resourceVersion'] = str(self.rv)
        self._emit(plural, 'DELETED', body)
        return body

    def force_remove(self, plural: str, ns: str | None, name: str) -> None:
        """Actor wipes all finalizers (kubectl patch --type=merge finalizers:null)."""
        cur = self.objs.get((plural, ns, name))
        if cur is not None:
            b = copy.deepcopy(cur)
            b['metadata'].pop('finalizers', None)
            self.write(plural, ns, name, b)

    def revoke(self, token: str) -> None:
        """The credentials stop being valid: new requests get 401; the open watch streams of that identity are closed by the server."""
        self.revoked_tokens.add(token)
        for s in self.streams:
            if s.open and s.client.token == token:
                s.resp.eof()
                s.close()

    def compact(self, plural: str | None = None) -> None:
        """Forget the event history: watches resuming from older versions get 410."""
        for p in ([plural] if plural else list(self.log) + [r['plural'] for r in self.resources]):
            self.compacted[p] = self.rv
            self.log[p] = []

    def bookmark(self, plural: str | None = None) -> None:
        """Send BOOKMARK events to bookmark-enabled streams which have nothing pending."""
        for s in self.streams:
            if s.open and s.bookmarks and (plural is None or s.plural == plural) and s.pending == 0:
                r = self.find_resource(s.plural)
                ev = {'type': 'BOOKMARK', 'object': {'kind': r['kind'] if r else 'X', 'apiVersion': 'v1',
                                                     'metadata': {'resourceVersion': str(self.rv)}}}
                s.resp.feed(ev)
                s.delivered.append((self.now(), 'BOOKMARK', None, str(self.rv)))
                s.delivered_rv = self.rv

    # stream-level fault helpers (used by scenarios)
    def streams_of(self, plural: str, client: str | None = None, only_open: bool = True) -> list[WatchStream]:
        return [s for s in self.streams if s.plural == plural and (not only_open or s.open)
                and (client is None or s.client.name == client)]

    def break_streams(self, plural: str, how: str, client: str | None = None) -> int:
        n = 0
        for s in self.streams_of(plural, client):
            n += 1
            if how == 'eof':
                s.resp.eof()
            elif how == 'conn':
                s.resp.fail(aiohttp.ClientConnectionError("reset by peer"))
            elif how == 'payload':
                s.resp.fail(aiohttp.ClientPayloadError("truncated"))
            elif how == 'timeout':
                s.resp.fail(asyncio.TimeoutError())
            elif how == '410':
                s.resp.feed({'type': 'ERROR', 'object': status_payload(410, 'too old resource version', 'Expired')})
                s.resp.eof()
            elif how == 'error':
                s.resp.feed({'type': 'ERROR', 'object': status_payload(500, 'etcd on fire', 'InternalError')})
            elif how == 'unknown':
                s.resp.feed({'type': 'WHATEVER', 'object': {'metadata': {}}})
                continue
            else:
                raise ValueError(how)
            s.close()
        return n

    # ----------------------------------------------------------------------------------
    # Request serving.

    async def _serve(self, client: Client, method: str, url: str, payload: Any, headers: dict[str, str], timeout: Any) -> Response:
        u = urllib.parse.urlparse(url)
        q = dict(urllib.parse.parse_qsl(u.query))
        client.n += 1
        req = Request(idx=len(self.requests), client=client.name, n=client.n, t=self.now(), method=method,
                      path=u.path + ('?' + u.query if u.query else ''), query=q, payload=copy.deepcopy(payload),
                      ctype=headers.get('Content-Type'), watch=(q.get('watch') == 'true'), g=next(GSEQ), token=client.token,
                      task=(lambda t: t.get_name() if t is not None else None)(asyncio.current_task()))   # who asks: 'runner of <id>' = a daemon/timer
        self._classify(req, u.path)
        self.requests.append(req)
        if client.dead:
            req.fault = 'dead'
            raise ClientDead("client is dead")
        if self.base_latency and not req.watch:
            await asyncio.sleep(self.base_latency)
            if client.dead:
                req.fault = 'dead'
                raise ClientDead("client is dead")
        faults = (self.fault_fn(req) if self.fault_fn is not None else None) or []
        req.fault = ','.join(repr(f) for f in faults) or None
        post_kill = False
        lost = False
        for f in faults:
            if f.kind == 'latency':
                await asyncio.sleep(round(f.delay, 6))
            elif f.kind == 'yields':
                for _ in range(f.n):
                    await asyncio.sleep(0)
            elif f.kind == 'slip':
                prev, self.writer = self.writer, 'slip'
                try:
                    assert f.fn is not None
                    f.fn(self)
                finally:
                    self.writer = prev
            elif f.kind == 'kill_before':
                client.kill()
            elif f.kind == 'kill_after':
                post_kill = True
            elif f.kind == 'lost':
                lost = True
            elif f.kind == 'conn':
                req.status = -1
                req.t_end = self.now()
                raise aiohttp.ClientConnectionError("injected connection error")
            elif f.kind == 'timeout':
                req.status = -2
                req.t_end = self.now()
                raise asyncio.TimeoutError()
            elif f.kind == 'status':
                req.status = f.status
                req.t_end = self.now()
                return Response(f.status, status_payload(f.status, f'injected {f.status}', details=f.details), headers=f.headers)
            elif f.kind == 'text':
                req.status = f.status
                req.t_end = self.now()
                return Response(f.status, None, headers=f.headers, text=f.text)
        if client.dead:
            req.fault = (req.fault or '') + '|dead'
            raise ClientDead("client is dead")
        if client.token is not None and client.token in self.revoked_tokens:
            req.status = 401
            req.t_end = self.now()
            req.fault = (req.fault or '') + '|revoked:' + client.token
            return Response(401, status_payload(401, 'Unauthorized', 'Unauthorized'))
        prev, self.writer = self.writer, client.name
        try:
            resp = self._route(client, req, method, u.path, q, payload, timeout)
        finally:
            self.writer = prev
        req.status = resp.status
        req.t_done = self.now()
        req.t_end = req.t_done
        req.g_done = next(GSEQ)
        req.lost = bool(lost or post_kill)
        if post_kill:
            if resp._q is not None:
                resp.close()
            client.kill()
            raise ClientDead("client is dead")
        if lost:
            if resp._q is not None:
                resp.close()
            raise aiohttp.ClientConnectionError("response lost")
        try:
            for _ in range(self.post_yields):
                await asyncio.sleep(0)
        except asyncio.CancelledError:
            # the client gave up while the response was on its way: the connection is gone, so is the stream behind it
            if resp._q is not None:
                resp.close()
            raise
        return resp

    _OBJ_RE = re.compile(r'/(?:api/v1|apis/(?P<g>[^/]+)/(?P<v>[^/]+))(?:/namespaces/(?P<ns>[^/]+))?/(?P<pl>[^/]+)'
                         r'(?:/(?P<name>[^/]+))?(?:/(?P<sub>[^/]+))?')

    def _classify(self, req: Request, path: str) -> None:
        if path in ('/api', '/apis', '/version') or re.fullmatch(r'/api/v1|/apis/[^/]+/[^/]+', path):
            req.kind = 'discovery'
            return
        m = self._OBJ_RE.fullmatch(path)
        if not m:
            req.kind = 'other'
            return
        req.plural, req.ns, req.name, req.sub = m.group('pl'), m.group('ns'), m.group('name'), m.group('sub')
        # "/api/v1/namespaces/<name>" is the namespace object itself
        if m.group('g') is None and m.group('ns') is not None and m.group('pl') is None:
            pass
        if req.method == 'GET' and req.name is None:
            req.kind = 'watch' if req.watch else 'list'
        else:
            req.kind = {'GET': 'get', 'PATCH': 'patch', 'POST': 'create', 'DELETE': 'delete', 'PUT': 'update'}.get(req.method, 'other')

    def _err(self, code: int, msg: str, reason: str = '') -> Response:
        return Response(code, status_payload(code, msg, reason))

    def _route(self, client: Client, req: Request, method: str, path: str, q: dict[str, str], payload: Any, timeout: Any) -> Response:
        if path == '/version':
            return Response(200, {'major': '1', 'minor': '30', 'gitVersion': 'v1.30.0-fake'})
        if path == '/api':
            return Response(200, {'kind': 'APIVersions', 'versions': ['v1']})
        if path == '/apis':
            groups: dict[str, list[str]] = {}
            for r in self.resources:
                if r['group']:
                    if r['version'] not in groups.setdefault(r['group'], []):
                        groups[r['group']].append(r['version'])
            return Response(200, {'kind': 'APIGroupList', 'groups': [
                {'name': g, 'preferredVersion': {'groupVersion': f'{g}/{v[0]}', 'version': v[0]},
                 'versions': [{'groupVersion': f'{g}/{x}', 'version': x} for x in v]}
                for g, v in groups.items()]})
        m = re.fullmatch(r'/api/(v1)|/apis/([^/]+)/([^/]+)', path)
        if m:
            group, version = ('', 'v1') if m.group(1) else (m.group(2), m.group(3))
            found = [r for r in self.resources if r['group'] == group and r['version'] == version]
            if not found:
                return self._err(404, 'the server could not find the requested resource', 'NotFound')
            res = []
            for r in found:
                res.append({'name': r['plural'], 'kind': r['kind'], 'singularName': r['kind'].lower(),
                            'namespaced': r['namespaced'], 'verbs': list(r['verbs']),
                            'shortNames': list(r['shortnames']), 'categories': list(r['categories'])})
                for s in r['subresources']:
                    res.append({'name': f"{r['plural']}/{s}", 'kind': r['kind'], 'singularName': '',
                                'namespaced': r['namespaced'], 'verbs': ['get', 'patch', 'update']})
            return Response(200, {'kind': 'APIResourceList', 'groupVersion': f'{group}/{version}'.lstrip('/'), 'resources': res})
        mo = self._OBJ_RE.fullmatch(path)
        if not mo:
            return self._err(404, 'no route', 'NotFound')
        group = mo.group('g') if mo.group('g') is not None else ''
        ns, pl, name, sub = mo.group('ns'), mo.group('pl'), mo.group('name'), mo.group('sub')
        r = self.find_resource(pl, group)
        if r is None:
            return self._err(404, f'the server could not find the requested resource ({pl})', 'NotFound')
        if method == 'GET' and name is None and q.get('watch') == 'true':
            return self._watch(client, req, r, pl, ns, q, timeout)
        if method == 'GET' and name is None:
            items = [copy.deepcopy(b) for (p, n, _), b in self.objs.items() if p == pl and (ns is None or n == ns)]
            for it in items:   # real lists omit kind/apiVersion of items
                it.pop('kind', None)
                it.pop('apiVersion', None)
            gv = f"{r['group']}/{r['version']}".lstrip('/')
            req.result_rv = str(self.rv)
            return Response(200, {'kind': r['kind'] + 'List', 'apiVersion': gv,
                                  'metadata': {'resourceVersion': str(self.rv)}, 'items': items})
        if method == 'GET':
            cur = self.objs.get((pl, ns, name))
            if cur is None:
                return self._err(404, f'{pl} "{name}" not found', 'NotFound')
            return Response(200, copy.deepcopy(cur))
        if method == 'POST':
            body = copy.deepcopy(payload or {})
            nm = body.get('metadata', {}).get('name')
            if nm is None:
                gen = body.get('metadata', {}).get('generateName', 'obj-')
                nm = f"{gen}{self.rv + 1}"
            if (pl, ns, nm) in self.objs:
                return self._err(409, 'already exists', 'AlreadyExists')
            out = self.write(pl, ns, nm, body)
            req.landed_uid = out['metadata']['uid']
            req.result_rv = out['metadata']['resourceVersion']
            return Response(201, out)
        if method == 'DELETE':
            out = self.delete(pl, ns, name)
            if out is None:
                return self._err(404, f'{pl} "{name}" not found', 'NotFound')
            return Response(200, out)
        if method == 'PATCH':
            key = (pl, ns, name)
            cur = self.objs.get(key)
            if cur is None:
                return self._err(404, f'{pl} "{name}" not found', 'NotFound')
            has_status_sub = 'status' in r['subresources']
            if sub is not None and sub not in r['subresources']:
                return self._err(404, f'the server could not find the requested resource', 'NotFound')
            if req.ctype == 'application/merge-patch+json':
                if not isinstance(payload, dict):
                    return self._err(400, 'bad merge patch', 'BadRequest')
                body = merge_patch(cur, payload)
            elif req.ctype == 'application/json-patch+json':
                if not isinstance(payload, list):
                    return self._err(400, 'bad json patch', 'BadRequest')
                try:
                    body = json_patch(cur, payload)
                except PatchError as e:
                    return self._err(422, f'the server rejected our request due to an error in our request: {e}', 'Invalid')
                if not isinstance(body, dict):
                    return self._err(422, 'patched object is not a mapping', 'Invalid')
            else:
                return self._err(415, 'unsupported media type', 'UnsupportedMediaType')
            if sub == 'status':
                new = copy.deepcopy(cur)
                if 'status' in body:
                    new['status'] = body['status']
                else:
                    new.pop('status', None)
                body = new
            elif has_status_sub:
                if 'status' in cur:
                    body['status'] = copy.deepcopy(cur['status'])
                else:
                    body.pop('status', None)
            # the apiserver's limit on the total size of an object's annotations (256 KiB): it keeps a runaway of mutually nested state (two operators
            # storing each other's stored state, under a mutant) from growing without bound -- as in a real cluster, the write is refused
            anns = (body.get('metadata') or {}).get('annotations') or {}
            if isinstance(anns, dict) and sum(len(str(k)) + len(str(v)) for k, v in anns.items()) > 262144:
                return self._err(422, 'metadata.annotations: Too long: must have at most 262144 bytes', 'Invalid')
            req.prev_rv = cur['metadata'].get('resourceVersion')
            out = self.write(pl, ns, name, body)
            req.landed_uid = cur['metadata'].get('uid')
            req.result_rv = out['metadata'].get('resourceVersion')
            return Response(200, out)
        return self._err(405, 'method not allowed', 'MethodNotAllowed')

    def _watch(self, client: Client, req: Request, r: dict[str, Any], pl: str, ns: str | None, q: dict[str, str], timeout: Any) -> Response:
        since_s = q.get('resourceVersion')
        since = int(since_s) if since_s not in (None, '', '0') and str(since_s).isdigit() else None
        resp = Response(200, None, stream=True)
        s = WatchStream(self, client, pl, ns, resp, since, q.get('allowWatchBookmarks') == 'true')
        self.streams.append(s)
        client.streams.append(resp)
        resp.on_client_close = s.close
        loop = asyncio.get_running_loop()
        if since is not None and since < self.compacted.get(pl, 0):
            resp.feed({'type': 'ERROR', 'object': status_payload(410, f'too old resource version: {since}', 'Expired')})
            s.delivered.append((self.now(), 'ERROR410', None, None))
            resp.eof()
            s.close()
            return resp
        if since is None:
            # "any version": synthetic ADDED for the current state, then live
            for (p, n, _), b in self.objs.items():
                if p == pl and (ns is None or n == ns):
                    self._deliver(s, int(b['metadata']['resourceVersion']), {'type': 'ADDED', 'object': copy.deepcopy(b)})
        else:
            for seq, ev in self.log.get(pl, []):
                if seq > since and (ns is None or ev['object']['metadata'].get('namespace') == ns):
                    self._deliver(s, seq, copy.deepcopy(ev))
        ts = q.get('timeoutSeconds')
        if ts:
            def server_timeout() -> None:
                if s.open:
                    resp.eof()
                    s.close()
            loop.call_later(float(ts), server_timeout)
        total = getattr(timeout, 'total', None)
        if total:
            def client_timeout() -> None:
                if s.open:
                    resp.fail(asyncio.TimeoutError())
                    s.close()
            loop.call_later(float(total), client_timeout)
        return resp


def _strip(b: dict[str, Any]) -> dict[str, Any]:
    b = copy.deepcopy(b)
    b.get('metadata', {}).pop('resourceVersion', None)
    return b

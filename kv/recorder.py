"""
Scripted user code and the boundary recorder (DESIGN 2.4).

Handlers are generated from declarative JSON-able specs and registered through the PUBLIC
``kopf.on.*`` decorators into an explicit ``OperatorRegistry``. Every invocation appends
call/return records; outcome scripts live in the Recorder (keyed by handler id and object uid)
so they continue across operator restarts ("finitely many failures").

Handler spec (dict):
    kind      create|update|delete|resume|field|event|index|daemon|timer|startup|cleanup
    id        handler id (explicit, stable)
    resource  plural (default 'kopfexamples')
    opts      decorator kwargs (JSON-able; see ``_decode_opts``)
    script    list of atoms; after exhaustion every call is ('ok',)
    subs      list of sub-handler specs {id, script, opts} (for changing handlers)
    persona   for daemons: see ``_daemon_body``

Atoms (lists, JSON-able):
    ['ok']            ['ok', result]          success (result: dict/scalar/None)
    ['temp', delay]   TemporaryError(delay)   ['perm'] PermanentError      ['arb'] ValueError
    ['slow', d, atom] sleep d virtual seconds, then play atom
    ['patch', fields, atom]  merge fields into the handler's ``patch`` kwarg, then play atom
"""
from __future__ import annotations

import asyncio
import copy
import functools
import threading
from typing import Any, Callable

from kv.driver import op_var
from kv.fakekube import GSEQ


def jsonable(x: Any, depth: int = 0) -> Any:
    if depth > 12:
        return '...'
    if x is None or isinstance(x, (bool, int, float, str)):
        return x
    if isinstance(x, (list, tuple, set, frozenset)):
        return [jsonable(i, depth + 1) for i in x]
    try:
        items = dict(x).items()
    except Exception:
        return repr(x)
    return {str(k): jsonable(v, depth + 1) for k, v in items}


def _locked(fn: Callable[..., Any]) -> Callable[..., Any]:
    """The recorder is shared by the loop thread and the handler threads of synchronous handlers: its counters and lists are updated under one lock."""
    @functools.wraps(fn)
    def wrapper(self: Any, *a: Any, **kw: Any) -> Any:
        with self._lock:
            return fn(self, *a, **kw)
    return wrapper


class Recorder:
    def __init__(self, sim: Any) -> None:
        self.sim = sim
        self._lock = threading.RLock()
        self.events: list[dict[str, Any]] = []          # call/ret/op records in global order
        self.script_pos: dict[tuple[str, str | None], int] = {}
        self.scripts: dict[str, list[Any]] = {}
        self.call_seq = 0
        self._instances: dict[int, tuple[int, Any]] = {}
        self.login_count: dict[str, int] = {}
        self.snapshot_indices: bool = False
        self.index_ids: list[str] = []
        self.extra_call_fields: Callable[[dict[str, Any], dict[str, Any]], None] | None = None

    def now(self) -> float:
        return self.sim.loop.time()

    @_locked
    def op_event(self, inc: str, what: str, **kw: Any) -> None:
        self.events.append({'k': 'op', 'g': next(GSEQ), 't': self.now(), 'inc': inc, 'what': what, **kw})

    @_locked
    def note(self, what: str, **kw: Any) -> None:
        self.events.append({'k': 'note', 'g': next(GSEQ), 't': self.now(), 'what': what, **kw})

    # ---- scripts --------------------------------------------------------------------
    @_locked
    def next_atom(self, hid: str, uid: str | None) -> Any:
        script = self.scripts.get(hid) or []
        pos = self.script_pos.get((hid, uid), 0)
        self.script_pos[(hid, uid)] = pos + 1
        return script[pos] if pos < len(script) else ['ok']

    def scripts_exhausted(self) -> bool:
        return True

    # ---- records --------------------------------------------------------------------
    @_locked
    def call(self, hid: str, kind: str, kw: dict[str, Any]) -> dict[str, Any]:
        self.call_seq += 1
        if self.call_seq == getattr(self.sim, 'max_calls', 1 << 60):
            # a runaway (handlers re-invoked at API speed, e.g. under a mutant): enough has been seen; end the run instead of grinding to the horizon
            self.sim.runaway = True
            self.note('runaway', calls=self.call_seq)
            for inc in self.sim.incarnations:
                if inc.running:
                    inc.kill()
        inc = op_var.get()
        body = kw.get('body')
        meta = (body.get('metadata', {}) if body is not None else {}) or {}
        rec: dict[str, Any] = {
            'k': 'call', 'g': next(GSEQ), 'seq': self.call_seq, 't': self.now(), 'inc': inc, 'h': hid, 'kind': kind,
            'uid': meta.get('uid'), 'name': meta.get('name'), 'ns': meta.get('namespace'),
            'rv': meta.get('resourceVersion'),
            'retry': kw.get('retry'), 'reason': (str(kw['reason']) if kw.get('reason') is not None else None),
            'deleting': meta.get('deletionTimestamp') is not None,
            'finalizers': list(meta.get('finalizers') or []),
        }
        if kw.get('started') is not None:
            rec['started'] = kw['started'].isoformat() if hasattr(kw['started'], 'isoformat') else str(kw['started'])
        if body is not None:
            rec['spec'] = jsonable(body.get('spec'))
            rec['labels'] = jsonable(meta.get('labels') or {})
            rec['annotations'] = jsonable(meta.get('annotations') or {})
            rec['status'] = jsonable(body.get('status'))
        if kind in ('create', 'update', 'delete', 'resume', 'field', 'sub'):
            rec['old'] = jsonable(kw.get('old'))
            rec['new'] = jsonable(kw.get('new'))
            rec['diff'] = jsonable([list(d) for d in (kw.get('diff') or ())])
        if kind == 'event':
            ev = kw.get('event') or {}
            rec['etype'] = ev.get('type')
        if kind in ('daemon', 'timer') and kw.get('stopped') is not None:
            # one stopper per spawned instance: its identity tells respawns from retries (a reference is kept, so ids are not reused)
            st = kw['stopped']
            if id(st) not in self._instances:
                self._instances[id(st)] = (len(self._instances), st)
            rec['inst'] = self._instances[id(st)][0]
            rec['stopped_at_call'] = bool(st)
        client = self.sim.kube.clients.get(inc) if inc else None
        if client is not None and client.dead:
            rec['post_mortem'] = True
        if self.snapshot_indices:
            snap = {}
            for iid in self.index_ids:
                idx = kw.get(iid)
                if idx is not None:
                    try:
                        snap[iid] = {repr(k): sorted(repr(v) for v in idx[k]) for k in idx}
                    except Exception as e:  # pragma: no cover
                        snap[iid] = {'<error>': [repr(e)]}
            rec['idx'] = snap
        if self.extra_call_fields is not None:
            self.extra_call_fields(rec, kw)
        self.events.append(rec)
        return rec

    @_locked
    def ret(self, call: dict[str, Any], outcome: str, **kw: Any) -> None:
        inc = call['inc']
        client = self.sim.kube.clients.get(inc) if inc else None
        rec = {'k': 'ret', 'g': next(GSEQ), 'seq': call['seq'], 't': self.now(), 'inc': inc, 'h': call['h'], 'uid': call['uid'],
               'kind': call['kind'], 'outcome': outcome, **kw}
        if client is not None and client.dead:
            rec['post_mortem'] = True
        self.events.append(rec)

    # ---- views ----------------------------------------------------------------------
    def calls(self, **flt: Any) -> list[dict[str, Any]]:
        return [e for e in self.events if e['k'] == 'call' and all(e.get(k) == v for k, v in flt.items())]

    def rets(self, **flt: Any) -> list[dict[str, Any]]:
        return [e for e in self.events if e['k'] == 'ret' and all(e.get(k) == v for k, v in flt.items())]

    def ret_of(self, call: dict[str, Any]) -> dict[str, Any] | None:
        for e in self.events:
            if e['k'] == 'ret' and e['seq'] == call['seq']:
                return e
        return None


# --------------------------------------------------------------------------------------

class ArbitraryError(ValueError):
    pass


class FatalBaseError(BaseException):
    pass


async def play(rec: Recorder, call: dict[str, Any], atom: Any, kw: dict[str, Any]) -> Any:
    """Interpret one atom inside a handler. Returns the result or raises the scripted error."""
    import kopf
    while True:
        op = atom[0]
        if op == 'slow':
            await asyncio.sleep(round(float(atom[1]), 6))
            atom = atom[2] if len(atom) > 2 else ['ok']
        elif op == 'patch':
            patch = kw.get('patch')
            if patch is not None:
                _deep_update(patch, copy.deepcopy(atom[1]))
            atom = atom[2] if len(atom) > 2 else ['ok']
        elif op == 'ok':
            return copy.deepcopy(atom[1]) if len(atom) > 1 else None
        elif op == 'temp':
            raise kopf.TemporaryError(f"scripted temporary #{call['seq']}", delay=atom[1] if len(atom) > 1 else 60)
        elif op == 'perm':
            raise kopf.PermanentError(f"scripted permanent #{call['seq']}")
        elif op == 'arb':
            raise ArbitraryError(f"scripted arbitrary #{call['seq']}")
        elif op == 'fatal':
            raise FatalBaseError(f"scripted fatal #{call['seq']}")     # not an Exception: nothing in the framework may swallow it
        else:
            raise RuntimeError(f"unknown atom {atom!r}")


def play_sync(rec: Recorder, call: dict[str, Any], atom: Any, kw: dict[str, Any]) -> Any:
    """The same interpreter for synchronous handlers (they run in kopf's thread pool): sleeps are virtual-time alarms (kv.vthreads)."""
    import kopf
    from kv import vthreads
    while True:
        op = atom[0]
        if op == 'slow':
            vthreads.vsleep(rec.sim.loop, round(float(atom[1]), 6))
            atom = atom[2] if len(atom) > 2 else ['ok']
        elif op == 'patch':
            patch = kw.get('patch')
            if patch is not None:
                _deep_update(patch, copy.deepcopy(atom[1]))
            atom = atom[2] if len(atom) > 2 else ['ok']
        elif op == 'ok':
            return copy.deepcopy(atom[1]) if len(atom) > 1 else None
        elif op == 'temp':
            raise kopf.TemporaryError(f"scripted temporary #{call['seq']}", delay=atom[1] if len(atom) > 1 else 60)
        elif op == 'perm':
            raise kopf.PermanentError(f"scripted permanent #{call['seq']}")
        elif op == 'arb':
            raise ArbitraryError(f"scripted arbitrary #{call['seq']}")
        else:
            raise RuntimeError(f"unknown atom {atom!r}")


def _deep_update(dst: Any, src: dict[str, Any]) -> None:
    for k, v in src.items():
        if isinstance(v, dict) and v:
            try:
                sub = dst[k]
            except KeyError:
                dst[k] = {}
                sub = dst[k]
            _deep_update(sub, v)
        else:
            dst[k] = v


def _outcome_name(e: BaseException | None) -> str:
    import kopf
    if e is None:
        return 'ok'
    if isinstance(e, asyncio.CancelledError):
        return 'cancelled'
    if isinstance(e, kopf.TemporaryError):
        return 'temp'
    if isinstance(e, kopf.PermanentError):
        return 'perm'
    return 'arb'


def _decode_opts(opts: dict[str, Any]) -> dict[str, Any]:
    import kopf
    out: dict[str, Any] = {}
    for k, v in (opts or {}).items():
        if k == 'errors' and isinstance(v, str):
            out[k] = getattr(kopf.ErrorsMode, v.upper())
        elif k in ('labels', 'annotations') and isinstance(v, dict):
            out[k] = {kk: _decode_filter(vv) for kk, vv in v.items()}
        elif k in ('value', 'old', 'new'):
            out[k] = _decode_filter(v)
        elif k == 'when' and isinstance(v, dict):
            out[k] = _decode_when(v)
        else:
            out[k] = v
    return out


def _decode_filter(v: Any) -> Any:
    import kopf
    if v == '$PRESENT':
        return kopf.PRESENT
    if v == '$ABSENT':
        return kopf.ABSENT
    if isinstance(v, dict) and '$in' in v:
        allowed = list(v['$in'])
        return lambda val, **_: val in allowed
    return v


def _decode_when(v: dict[str, Any]) -> Callable[..., bool]:
    # {'spec_eq': [key, value]} | {'label': key} | {'not_label': key}
    if 'spec_eq' in v:
        key, val = v['spec_eq']
        return lambda spec, **_: spec.get(key) == val
    if 'label' in v:
        key = v['label']
        return lambda labels, **_: key in labels
    if 'not_label' in v:
        key = v['not_label']
        return lambda labels, **_: key not in labels
    raise ValueError(v)


def build_registry(rec: Recorder, specs: list[dict[str, Any]]) -> Any:
    """Register scripted handlers through the public decorators. Returns an OperatorRegistry."""
    import kopf
    registry = kopf.OperatorRegistry()
    for spec in specs:
        _register(rec, registry, spec)
        if spec['kind'] == 'index':
            rec.index_ids.append(spec['id'])
            rec.snapshot_indices = True
    return registry


def _register(rec: Recorder, registry: Any, spec: dict[str, Any]) -> None:
    import kopf
    kind = spec['kind']
    hid = spec['id']
    resource = spec.get('resource', 'kopfexamples')
    opts = _decode_opts(spec.get('opts', {}))
    rec.scripts.setdefault(hid, list(spec.get('script', [])))
    subs = spec.get('subs') or []

    if kind in ('create', 'update', 'delete', 'resume', 'field'):
        async def changing(**kw: Any) -> Any:
            call = rec.call(hid, kind, kw)
            uid = call['uid']
            try:
                atom = rec.next_atom(hid, uid)
                if subs and spec.get('subs_before_outcome'):
                    # a parent that declares its sub-handlers and THEN fails itself in the same invocation
                    for sub in subs:
                        _register_sub(rec, hid, sub, uid)
                    result = await play(rec, call, atom, kw)
                else:
                    result = await play(rec, call, atom, kw)
                    if subs:
                        for sub in subs:
                            _register_sub(rec, hid, sub, uid)
                        if spec.get('explicit_execute'):
                            await kopf.execute()
            except BaseException as e:
                rec.ret(call, _outcome_name(e), exc=type(e).__name__)
                raise
            rec.ret(call, 'ok', result=jsonable(result))
            return result
        def changing_sync(**kw: Any) -> Any:
            # a synchronous handler: kopf runs it in its thread pool (kv.vthreads keeps the clock virtual meanwhile)
            call = rec.call(hid, kind, kw)
            call['thread'] = True
            uid = call['uid']
            try:
                atom = rec.next_atom(hid, uid)
                result = play_sync(rec, call, atom, kw)
                for sub in subs:
                    _register_sub(rec, hid, sub, uid)
            except BaseException as e:
                rec.ret(call, _outcome_name(e), exc=type(e).__name__)
                raise
            rec.ret(call, 'ok', result=jsonable(result))
            return result
        fn = changing_sync if spec.get('sync') else changing
        fn.__name__ = fn.__qualname__ = hid
        deco = getattr(kopf.on, kind)
        deco(resource, id=hid, registry=registry, **opts)(fn)

    elif kind == 'event':
        async def watching(**kw: Any) -> Any:
            call = rec.call(hid, kind, kw)
            try:
                atom = rec.next_atom(hid, call['uid'])
                result = await play(rec, call, atom, kw)
            except BaseException as e:
                rec.ret(call, _outcome_name(e), exc=type(e).__name__)
                raise
            rec.ret(call, 'ok')
            return result
        watching.__name__ = watching.__qualname__ = hid
        kopf.on.event(resource, id=hid, registry=registry, **opts)(watching)

    elif kind == 'index':
        async def indexing(**kw: Any) -> Any:
            call = rec.call(hid, kind, kw)
            try:
                atom = rec.next_atom(hid, call['uid'])
                rule = spec.get('index_rule')
                if rule is not None and atom == ['ok']:
                    result = index_rule_result(rule, kw)
                else:
                    result = await play(rec, call, atom, kw)
            except BaseException as e:
                rec.ret(call, _outcome_name(e), exc=type(e).__name__)
                raise
            rec.ret(call, 'ok', result=jsonable(result))
            return result
        indexing.__name__ = indexing.__qualname__ = hid
        kopf.index(resource, id=hid, registry=registry, **opts)(indexing)

    elif kind == 'timer':
        async def timer(**kw: Any) -> Any:
            call = rec.call(hid, kind, kw)
            try:
                atom = rec.next_atom(hid, call['uid'])
                result = await play(rec, call, atom, kw)
            except BaseException as e:
                rec.ret(call, _outcome_name(e), exc=type(e).__name__)
                raise
            rec.ret(call, 'ok', result=jsonable(result))
            return result
        def timer_sync(**kw: Any) -> Any:
            call = rec.call(hid, kind, kw)
            call['thread'] = True
            try:
                atom = rec.next_atom(hid, call['uid'])
                result = play_sync(rec, call, atom, kw)
            except BaseException as e:
                rec.ret(call, _outcome_name(e), exc=type(e).__name__)
                raise
            rec.ret(call, 'ok', result=jsonable(result))
            return result
        tfn = timer_sync if spec.get('sync') else timer
        tfn.__name__ = tfn.__qualname__ = hid
        kopf.timer(resource, id=hid, registry=registry, **opts)(tfn)

    elif kind == 'daemon':
        body = (_daemon_body_sync if spec.get('sync') else _daemon_body)(rec, hid, spec.get('persona') or {'type': 'obedient'})
        body.__name__ = body.__qualname__ = hid
        kopf.daemon(resource, id=hid, registry=registry, **opts)(body)

    elif kind in ('startup', 'cleanup'):
        async def activity(**kw: Any) -> Any:
            call = rec.call(hid, kind, kw)
            try:
                atom = rec.next_atom(hid, None)
                result = await play(rec, call, atom, kw)
            except BaseException as e:
                rec.ret(call, _outcome_name(e), exc=type(e).__name__)
                raise
            rec.ret(call, 'ok')
            return result
        activity.__name__ = activity.__qualname__ = hid
        getattr(kopf.on, kind)(id=hid, registry=registry, **opts)(activity)
    elif kind == 'login':
        # a login handler handing out a FRESH fake session (new token) of the calling incarnation; spec['delay'] = how long the login takes
        async def login(**kw: Any) -> Any:
            from kopf._cogs.structs import credentials
            call = rec.call(hid, kind, kw)
            try:
                atom = rec.next_atom(hid, None)
                if atom != ['ok']:
                    await play(rec, call, atom, kw)
                if spec.get('delay'):
                    await asyncio.sleep(float(spec['delay']))
                inc = call['inc']
                old = rec.sim.kube.clients.get(inc)
                new = rec.sim.kube.client(inc)              # same identity for the logs, a new session object and token
                rec.login_count[inc] = rec.login_count.get(inc, 0) + 1
                new.token = f"{inc}-tok{rec.login_count[inc]}"
                new.on_kill = old.on_kill if old is not None else None
                for i2 in rec.sim.incarnations:
                    if i2.name == inc:
                        i2.client = new
            except BaseException as e:
                rec.ret(call, _outcome_name(e), exc=type(e).__name__)
                raise
            rec.ret(call, 'ok', token=new.token)
            return credentials.AiohttpSession(server='http://fake', aiohttp_session=new)
        login.__name__ = login.__qualname__ = hid
        kopf.on.login(id=hid, registry=registry, **opts)(login)
    else:
        raise ValueError(f"unknown handler kind {kind!r}")


def index_rule_result(rule: dict[str, Any], kw: dict[str, Any]) -> Any:
    """
    The scripted result of an index function as a deterministic function of the object (so a reference model can recompute it):
    spec[<mode_field>] in dict|multi|scalar|none|nonevals|temp|perm|arb; keys from spec.k / spec.k2, value '<name>:<spec.x>'.
    """
    import kopf
    spec = kw['spec']
    mode = spec.get(rule.get('mode_field', 'm'), 'dict')
    val = f"{kw['name']}:{spec.get('x')}"
    if mode == 'dict':
        return {spec.get('k', 'k0'): val}
    if mode == 'multi':
        return {spec.get('k', 'k0'): val, spec.get('k2', 'k9'): val}
    if mode == 'scalar':
        return val
    if mode == 'none':
        return None
    if mode == 'nonevals':
        return {spec.get('k', 'k0'): None}
    if mode == 'empty':
        return {}
    if mode == 'temp':
        raise kopf.TemporaryError('scripted', delay=rule.get('delay', 2.0))
    if mode == 'perm':
        raise kopf.PermanentError('scripted')
    if mode == 'arb':
        raise ArbitraryError('scripted')
    raise ValueError(mode)


def _register_sub(rec: Recorder, parent: str, sub: dict[str, Any], uid: str | None) -> None:
    import kopf
    sid = sub['id']
    full = f'{parent}/{sid}'
    rec.scripts.setdefault(full, list(sub.get('script', [])))
    opts = _decode_opts(sub.get('opts', {}))

    async def subfn(**kw: Any) -> Any:
        call = rec.call(full, 'sub', kw)
        try:
            atom = rec.next_atom(full, call['uid'])
            result = await play(rec, call, atom, kw)
        except BaseException as e:
            rec.ret(call, _outcome_name(e), exc=type(e).__name__)
            raise
        rec.ret(call, 'ok', result=jsonable(result))
        return result
    def subfn_sync(**kw: Any) -> Any:
        call = rec.call(full, 'sub', kw)
        call['thread'] = True
        try:
            atom = rec.next_atom(full, call['uid'])
            result = play_sync(rec, call, atom, kw)
        except BaseException as e:
            rec.ret(call, _outcome_name(e), exc=type(e).__name__)
            raise
        rec.ret(call, 'ok', result=jsonable(result))
        return result
    sfn = subfn_sync if sub.get('sync') else subfn
    sfn.__name__ = sfn.__qualname__ = sid
    kopf.subhandler(id=sid, **opts)(sfn)


def _daemon_body(rec: Recorder, hid: str, persona: dict[str, Any]) -> Callable[..., Any]:
    """
    Daemon personas (always finite):
      obedient        waits on ``stopped`` and returns when it is set
      stubborn        ignores the flag; ends only when cancelled
      swallow         ignores the flag AND swallows up to ``n`` cancellations, each time sleeping ``linger``
                      more virtual seconds, then returns
      selfexit        returns on its own after ``after`` seconds
      fail            raises per script atoms (temp/perm/arb), otherwise like obedient
      linger          obeys the flag but needs ``linger`` seconds to wind down after it is set
    """
    ptype = persona.get('type', 'obedient')

    async def daemon(**kw: Any) -> Any:
        call = rec.call(hid, 'daemon', kw)
        stopped = kw['stopped']
        outcome = 'ok'
        extra: dict[str, Any] = {}
        async def note_flag() -> None:
            # pure observation: when was the stop flag raised (whatever the persona does about it)
            await stopped.wait()
            extra.setdefault('flag_seen_at', rec.now())
        noter = asyncio.create_task(note_flag())
        try:
            atom = rec.next_atom(hid, call['uid'])
            if atom != ['ok']:
                await play(rec, call, atom, kw)
            if ptype == 'obedient' or ptype == 'fail':
                await stopped.wait()
                extra.setdefault('flag_seen_at', rec.now())
            elif ptype == 'linger':
                await stopped.wait()
                extra.setdefault('flag_seen_at', rec.now())
                await asyncio.sleep(float(persona.get('linger', 1.0)))
            elif ptype == 'stubborn':
                await asyncio.Event().wait()
            elif ptype == 'swallow':
                left = int(persona.get('n', 1))
                while True:
                    try:
                        await asyncio.Event().wait()
                    except asyncio.CancelledError:
                        extra.setdefault('cancelled_at', []).append(rec.now())
                        if left <= 0:
                            raise
                        left -= 1
                        try:
                            await asyncio.sleep(float(persona.get('linger', 1.0)))
                        except asyncio.CancelledError:
                            extra.setdefault('cancelled_at', []).append(rec.now())
                        break
            elif ptype == 'selfexit':
                await asyncio.sleep(float(persona.get('after', 1.0)))
            else:
                raise ValueError(ptype)
            extra['stopped_flag'] = bool(stopped)
            extra['reasons'] = str(getattr(stopped, 'reason', None))
        except asyncio.CancelledError:
            extra.setdefault('cancelled_at', []).append(rec.now())
            extra['stopped_flag'] = bool(stopped)
            extra['reasons'] = str(getattr(stopped, 'reason', None))
            noter.cancel()
            rec.ret(call, 'cancelled', **extra)
            raise
        except BaseException as e:
            noter.cancel()
            rec.ret(call, _outcome_name(e), exc=type(e).__name__, **extra)
            raise
        noter.cancel()
        rec.ret(call, outcome, **extra)
        return None
    return daemon


def _daemon_body_sync(rec: Recorder, hid: str, persona: dict[str, Any]) -> Callable[..., Any]:
    """
    Synchronous daemon personas: the function runs in kopf's thread pool and gets the thread-side stop flag
    (``stopped.wait()`` blocks on a ``threading.Event``). A thread cannot be cancelled, so the personas are:
      obedient   blocks on ``stopped.wait()`` and returns when the flag is raised
      linger     the same, then needs ``linger`` more virtual seconds (long lingers are the sync "stubborn": abandoned, never cancelled)
      selfexit   returns on its own after ``after`` virtual seconds
      fail       raises per script atoms, otherwise like obedient
    """
    from kv import vthreads
    ptype = persona.get('type', 'obedient')

    def daemon(**kw: Any) -> Any:
        call = rec.call(hid, 'daemon', kw)
        call['thread'] = True
        stopped = kw['stopped']
        extra: dict[str, Any] = {}
        try:
            atom = rec.next_atom(hid, call['uid'])
            if atom != ['ok']:
                play_sync(rec, call, atom, kw)
            if ptype in ('obedient', 'fail', 'linger', 'stubborn', 'swallow'):
                vthreads.block_until(lambda: bool(stopped), stopped.wait)
                extra.setdefault('flag_seen_at', rec.now())
                if ptype in ('linger', 'stubborn', 'swallow'):
                    vthreads.vsleep(rec.sim.loop, float(persona.get('linger', 1.0)))
            elif ptype == 'selfexit':
                if vthreads.vsleep(rec.sim.loop, float(persona.get('after', 1.0)), also=stopped) is False and bool(stopped):
                    extra.setdefault('flag_seen_at', rec.now())
            else:
                raise ValueError(ptype)
            # The thread wakes while the loop thread is still inside the callback that raised the flag (and may be adding reasons to it):
            # a zero-length virtual sleep lets that callback finish, so that what is recorded does not depend on the GIL's hand-overs.
            vthreads.vsleep(rec.sim.loop, 0.0)
            extra['stopped_flag'] = bool(stopped)
            extra['reasons'] = str(getattr(stopped, 'reason', None))
        except BaseException as e:
            rec.ret(call, _outcome_name(e), exc=type(e).__name__, **extra)
            raise
        rec.ret(call, 'ok', **extra)
        return None
    return daemon

"""
Run (a subset of) the repository's own test suite with the recording contracts of kv.pytest_contracts switched on:
the tests' inputs are a free extra workload for the reference models. The tests come from /repo/tests; kopf is imported
from the tree under check (VERIF_KOPF_ROOT), so mutation self-tests exercise the mutated code too.
"""
from __future__ import annotations

import json
import os
import subprocess
import tempfile
from typing import Any

from kv import env

SUBSET = ['tests/causation', 'tests/handling', 'tests/diffs', 'tests/basic-structs', 'tests/persistence']


def run_with_contracts(paths: list[str] | None = None, timeout: float = 900.0) -> dict[str, Any]:
    fd, report = tempfile.mkstemp(prefix='kv-contract-', suffix='.json')
    os.close(fd)
    e = env.child_env()
    e['KV_CONTRACT_REPORT'] = report
    paths = [p for p in (paths or SUBSET) if os.path.exists(os.path.join('/repo', p))]
    try:
        p = subprocess.run([env.PY, '-m', 'pytest', '-q', '-x', '-p', 'no:cacheprovider', '-p', 'kv.pytest_contracts', '--timeout=600', *paths],
                           cwd='/repo', env=e, capture_output=True, text=True, timeout=timeout)
        try:
            out = json.load(open(report))
        except Exception:
            out = {'error': 'no report', 'tail': p.stdout[-800:] + p.stderr[-400:]}
        out['pytest_rc'] = p.returncode
        out['pytest_tail'] = p.stdout.strip().splitlines()[-1:] if p.stdout else []
        return out
    except subprocess.TimeoutExpired:
        return {'error': 'timeout'}
    finally:
        try:
            os.unlink(report)
        except OSError:
            pass

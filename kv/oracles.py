"""
Offline trace checkers shared by the closed-loop checks. Each is a deterministic function World -> [violation].
A violation is {'mech': key, 'msg': str, 'witness': any}; 'mech' is the mechanism key used for known findings.
"""
from __future__ import annotations

from typing import Any

from kv.refmodels import StorageView, essence, finished
from kv.world import World

CHANGING = ('create', 'update', 'delete', 'resume', 'field', 'sub')


class Index:
    """Pre-computed views of one World."""

    def __init__(self, w: World, plural: str = 'kopfexamples') -> None:
        self.w = w
        self.plural = plural
        self.sv = StorageView(w.desc.get('storage', 'default'), w.desc.get('prefix'))
        self.calls = [e for e in w.events if e['k'] == 'call']
        self.rets = {e['seq']: e for e in w.events if e['k'] == 'ret'}
        self.writes = [r for r in w.requests if r.kind == 'patch' and r.plural == plural and r.status == 200
                       and r.landed_uid is not None and r.result_rv is not None]
        self.specs = {h['id']: h for h in w.desc['handlers']}
        for h in list(self.specs.values()):
            for sub in h.get('subs') or []:
                self.specs[f"{h['id']}/{sub['id']}"] = dict(sub, kind='sub', parent=h['id'])
        self.kills = [e for e in w.events if e['k'] == 'op' and e['what'] == 'killed']
        self.lost = [r for r in w.requests if r.fault and ('lost' in r.fault)]
        self.uids = [u for u, vs in w.history.items() if vs and vs[0]['plural'] == plural]

    def known_version(self, inc: str, uid: str, g: int, t: float | None = None) -> int:
        """
        Newest version of uid that incarnation ``inc`` got as a response to its own write before position g --
        not counting writes older than the consistency timeout at time t (after it the framework documents that it
        proceeds on whatever view it has; the statement excludes echo delays beyond that timeout).
        """
        ct = float((self.w.desc.get('settings') or {}).get('persistence__consistency_timeout', 5.0) or 0.0)
        k = 0
        for r in self.writes:
            if r.client == inc and r.landed_uid == uid and r.g_done is not None and r.g_done < g and not r.lost:
                if t is not None and t >= r.t_done + ct - 1e-9:
                    continue
                k = max(k, int(r.result_rv))
        return k

    def _unused(self) -> None:
        pass

    def is_final(self, ret: dict[str, Any]) -> bool | None:
        """Is this return a final outcome of the handler (by the scripted error policy)? None: unknown."""
        spec = self.specs.get(ret['h'], {})
        opts = spec.get('opts') or {}
        if opts.get('retries') is not None or opts.get('timeout') is not None:
            return None
        out = ret['outcome']
        if spec.get('subs') and out == 'ok':
            return None   # the function returning is not the handler finishing: its children decide
        if out in ('ok', 'perm'):
            return True
        if out == 'arb':
            mode = (opts.get('errors') or 'temporary').lower()
            return mode in ('permanent', 'ignored')
        if out == 'temp':
            return False
        return False   # cancelled etc.

    def closing_writes(self, uid: str) -> list[Any]:
        """Operator writes that store the last-handled state (closing a create/update cycle) on this uid."""
        out = []
        key = f'{self.sv.prefix}/last-handled-configuration'
        for r in self.writes:
            if r.landed_uid != uid or r.client in ('actor', 'slip'):
                continue
            p = r.payload
            if isinstance(p, dict):
                a = ((p.get('metadata') or {}).get('annotations') or {}).get(key)
                s = ((p.get('status') or {}).get('kopf') or {}).get('last-handled-configuration') if isinstance(p.get('status'), dict) else None
                if (self.sv.in_annotations and a) or (not self.sv.in_annotations and s) or (self.sv.storage == 'smart' and (a or s)):
                    val = (a or s).strip()
                    if out and out[-1][1] == val and out[-1][0].client == r.client and not any(
                            e['k'] in ('call', 'ret') and e.get('uid') == uid and e.get('kind') in ('create', 'update', 'delete', 'resume', 'field', 'sub')
                            and e.get('inc') == r.client      # (the zombie tasks of a killed predecessor are not part of this patching)
                            and out[-1][0].g < e['g'] < r.g for e in self.w.events):
                        continue   # the second half (main + /status) of one and the same patching
                    out.append((r, val))
        return [r for r, _ in out]

    def cycle_marks(self, uid: str) -> list[int]:
        """Positions (g) where a handling cycle of this object was closed: last-handled state stored, or released at deletion."""
        marks = [cw.g for cw in self.closing_writes(uid)]
        for fr in self.finalizer_removals(uid):
            before = self.w.body_at(uid, fr.prev_rv)
            if before is not None and before['metadata'].get('deletionTimestamp'):
                marks.append(fr.g)
        return sorted(marks)

    def finalizer_removals(self, uid: str) -> list[Any]:
        out = []
        for r in self.writes:
            if r.landed_uid != uid or not isinstance(r.payload, list):
                continue
            before = self.w.body_at(uid, r.prev_rv) if r.prev_rv else None
            after_has = None
            for v in self.w.history.get(uid, []):
                if str(v['rv']) == str(r.result_rv) or (v['type'] == 'DELETED' and v['g'] < (r.g_done or 0) and v['g'] > r.g):
                    after_has = self.sv.finalizer in (v['body']['metadata'].get('finalizers') or []) and v['type'] != 'DELETED'
            touches = any(str(op.get('path', '')).startswith('/metadata/finalizers') and op.get('op') in ('remove', 'replace') for op in r.payload)
            if before is not None and self.sv.has_finalizer(before) and touches and not after_has:
                out.append(r)
        return out


def oracle_progress(w: World, ix: Index | None = None) -> list[dict[str, Any]]:
    """C02: recorded progress governs invocation."""
    ix = ix or Index(w)
    sv = ix.sv
    viol: list[dict[str, Any]] = []
    for e in ix.calls:
        if e['kind'] not in CHANGING or e.get('post_mortem') or e['uid'] is None:
            continue
        uid, hid = e['uid'], e['h']
        view = {'metadata': {'annotations': e.get('annotations') or {}}, 'status': e.get('status') or {}}
        rec_view = sv.record(view, hid)
        if finished(rec_view):
            viol.append({'mech': 'rerun-finished-in-view', 'msg': f"{hid} invoked on {uid} although its own view records it as finished: {rec_view}",
                         'witness': {'call': _brief(e), 'record': rec_view}})
        v = int(e['rv']) if e.get('rv') and str(e['rv']).isdigit() else 0
        k = ix.known_version(e['inc'], uid, e['g'], e['t'])
        body = w.body_at(uid, max(v, k))
        rec_srv = sv.record(body, hid)
        if finished(rec_srv) and not finished(rec_view):
            viol.append({'mech': 'rerun-finished-on-server', 'msg': f"{hid} invoked on {uid} (view rv={v}) although version {max(v, k)}, which this "
                         f"operator itself wrote and got acknowledged, records it as finished", 'witness': {'call': _brief(e), 'record': rec_srv, 'known': k}})
        expected = int((rec_view or {}).get('retries') or 0)
        if e.get('retry') is not None and e['retry'] != expected:
            viol.append({'mech': 'retry-mismatch', 'msg': f"{hid} on {uid}: retry={e['retry']} but the record in its view says {expected} attempts",
                         'witness': {'call': _brief(e), 'record': rec_view}})
    # (2b) in runs without restarts, kills or lost responses the retry number is the number of earlier attempts of this
    # handler on this object in the still-open cycle, counted by the recorder (not read from kopf's own record)
    if not ix.kills and not ix.lost and len(w.incs) == 1:
        for uid in ix.uids:
            name = w.history[uid][0]['body']['metadata'].get('name')
            if any(r.kind == 'patch' and r.name == name and r.status != 200 for r in w.requests):
                continue   # an attempt whose record could not be written (404/422) is legitimately not "recorded"
            attempts: dict[str, int] = {}
            last_reason: dict[str, str] = {}
            marks = ix.cycle_marks(uid)
            mi = 0
            for e in w.events:
                if e.get('uid') != uid or e['k'] not in ('call', 'ret') or e.get('kind') not in CHANGING:
                    continue
                while mi < len(marks) and marks[mi] < e['g']:
                    attempts.clear()
                    mi += 1
                h = e['h']
                if e['k'] == 'call':
                    if last_reason.get(h) not in (None, e.get('reason')):
                        attempts[h] = 0      # superseded by another cause: a new purpose starts from scratch or is re-purposed
                    last_reason[h] = e.get('reason')
                    late_echo_view = False
                    if e.get('rv') is not None and str(e['rv']).isdigit() and e.get('inc'):
                        # the view is older than this operator's own acknowledged write although its consistency timeout has run out (the echo never came:
                        # lost with a broken stream, or a foreign write's event overtook it): the record of the last attempt is not in that view. The statement
                        # excludes echo delays beyond the timeout; 2 us of slack for the request latency between kopf's clock reading and the server's stamp.
                        late_echo_view = int(e['rv']) < ix.known_version(e['inc'], uid, e['g']) and int(e['rv']) >= ix.known_version(e['inc'], uid, e['g'], t=e['t'] + 2e-6)
                    if e.get('retry') is not None and e['retry'] < attempts.get(h, 0) and not ix.specs.get(h, {}).get('subs') and not late_echo_view:
                        viol.append({'mech': 'retry-undercount', 'msg': f"{h} on {uid}: invoked with retry={e['retry']} although it was already "
                                     f"attempted {attempts.get(h, 0)} time(s) in this cycle", 'witness': _brief(e)})
                else:
                    if e['outcome'] != 'cancelled':
                        attempts[h] = attempts.get(h, 0) + 1
    # cycle closure
    by_kind: dict[str, list[str]] = {}
    for hid, spec in ix.specs.items():
        if spec['kind'] in ('create', 'update', 'delete'):
            by_kind.setdefault(spec['kind'], []).append(hid)

    def unsatisfied(required: list[str], done: set[str]) -> list[str]:
        # a plain handler needs its own final outcome; a parent of sub-handlers either failed for good itself,
        # or every child has a final outcome.
        missing = []
        for h in required:
            subs = ix.specs[h].get('subs')
            if h in done:
                continue
            if subs and all(f"{h}/{sub['id']}" in done for sub in subs):
                continue
            missing.append(h)
        return missing
    # 'absent crashes ...': a stop that cancels a running pass loses its in-memory outcomes exactly like a crash does
    clean = not ix.kills and not ix.lost and len(w.incs) == 1
    for uid in ix.uids:
        closes = ix.closing_writes(uid)
        finals = [(r['g'], r['h'], r['outcome']) for r in ix.rets.values()
                  if r['uid'] == uid and r['kind'] in CHANGING and ix.is_final(r)]
        inc_of_ret = {r['g']: r.get('inc') for r in ix.rets.values() if r['uid'] == uid}
        prev_g = 0
        for cw in closes:
            before = w.body_at(uid, cw.prev_rv)
            # Which cause was being handled? The operator acted on ITS view, which may be older than the server state:
            # take the reason reported to the handlers invoked in this window; if none was invoked, every cause
            # consistent with some view between the last processed and the current version is a candidate.
            window_calls = [c for c in ix.calls if c['uid'] == uid and c['kind'] in CHANGING and prev_g < c['g'] <= cw.g and c.get('reason')
                            and not c.get('post_mortem')       # (what a killed incarnation's zombie tasks still do in the simulation does not count)
                            and c['inc'] == cw.client]         # the cause as seen by the incarnation that closes the cycle (a successor may see a deletion)
            if window_calls:
                candidates = [window_calls[-1]['reason']]
            else:
                candidates = ['create' if sv.diffbase(before) is None else 'update']
            # a deletion supersedes whatever cycle was open: the pass that sees the mark handles (and closes) the deletion instead
            if before is not None and before['metadata'].get('deletionTimestamp') and 'delete' not in candidates:
                candidates.append('delete')
            done = {h for g, h, o in finals if prev_g < g <= cw.g}
            # handlers finished earlier in this cycle and still recorded as such on the server also count
            for h in list(ix.specs):
                if finished(sv.record(before, h)):
                    done.add(h)
                # ... or in the (possibly stale, post-timeout) view the operator acted on
                for c in window_calls:
                    if finished(sv.record({'metadata': {'annotations': c.get('annotations') or {}}, 'status': c.get('status') or {}}, h)):
                        done.add(h)
            problems = []
            for reason in candidates:
                required = [h for h in by_kind.get(reason, []) if not (reason == 'delete' and (ix.specs[h].get('opts') or {}).get('optional'))]
                missing = unsatisfied(required, done) if _unfiltered(ix, required) else []
                problems.append((reason, missing))
            if all(m for _, m in problems):
                reason, missing = problems[0]
                viol.append({'mech': 'closed-early', 'msg': f"{uid}: {reason} cycle closed (last-handled state stored by request #{cw.idx}) "
                             f"while {missing} had no final outcome", 'witness': {'write': cw.brief(), 'finals': finals[-8:]}})
            if not ix.kills and not ix.lost:
                # (with graceful restarts in the run: only successes within ONE operator process are compared -- a stop that cancels a running pass
                # loses its in-memory outcomes like a crash does, so a success before the stop and one after it are not held against each other)
                succ: dict[tuple[str, Any], int] = {}
                for g, h, o in finals:
                    if prev_g < g <= cw.g and o == 'ok':
                        key = (h, inc_of_ret.get(g))
                        succ[key] = succ.get(key, 0) + 1
                for (h, _inc), n in succ.items():
                    if n > 1:
                        viol.append({'mech': 'double-success', 'msg': f"{uid}: {h} succeeded {n} times within one cycle (no kills, no lost responses)",
                                     'witness': {'finals': [f for f in finals if f[1] == h]}})
            prev_g = cw.g
        # a deletion is one cycle from the mark to the release (however many re-checks the exiting daemons take): at most one success each
        if clean:
            marked = min((v['g'] for v in w.history[uid] if v['body']['metadata'].get('deletionTimestamp')), default=None)
            if marked is not None:
                # "absent ... echo delays beyond the consistency timeout": an invocation on a view older than this operator's own acknowledged write,
                # made after that write's consistency timeout has run out (its echo never came: e.g. the stream broke and the object was gone
                # at the re-listing), is what the statement excludes; its success is not counted against the one before it
                by_seq = {c['seq']: c for c in ix.calls if c['uid'] == uid}
                ct_ = float((w.desc.get('settings') or {}).get('persistence__consistency_timeout', 5.0) or 0.0)
                late_echo = set()
                for r in ix.rets.values():
                    c = by_seq.get(r['seq'])
                    if c is not None and r['uid'] == uid and c.get('rv') is not None and c.get('inc'):
                        if int(c['rv']) < ix.known_version(c['inc'], uid, c['g']) and int(c['rv']) >= ix.known_version(c['inc'], uid, c['g'], t=c['t']):
                            late_echo.add(r['g'])
                        # the operator's own release of the finalizer removed the object (with or without a bump of the resourceVersion -- both occur):
                        # every later invocation is on a view older than that write; after its consistency timeout the statement excludes it
                        last = w.history[uid][-1]
                        if last['type'] == 'DELETED' and last.get('writer') == c['inc'] and last['g'] < c['g'] and c['t'] >= last['t'] + ct_ - 1e-6:
                            late_echo.add(r['g'])
                dsucc: dict[str, int] = {}
                for g, h, o in finals:
                    if g > marked and o == 'ok' and h.split('/')[0] in by_kind.get('delete', []) and g not in late_echo:
                        dsucc[h] = dsucc.get(h, 0) + 1
                for h, n in dsucc.items():
                    if n > 1:
                        viol.append({'mech': 'double-success', 'msg': f"{uid}: {h} succeeded {n} times within one deletion (no kills, no lost responses)",
                                     'witness': {'finals': [f for f in finals if f[1] == h]}})
        for fr in ix.finalizer_removals(uid):
            before = w.body_at(uid, fr.prev_rv)
            if before is None or not before['metadata'].get('deletionTimestamp'):
                continue
            marked_g = min((v['g'] for v in w.history[uid] if v['body']['metadata'].get('deletionTimestamp')), default=0)
            required = [h for h in by_kind.get('delete', []) if not (ix.specs[h].get('opts') or {}).get('optional')]
            done = {h for g, h, o in finals if marked_g < g <= fr.g}
            for h in list(ix.specs):
                if finished(sv.record(before, h)):
                    done.add(h)
            missing = unsatisfied(required, done)
            if missing:
                viol.append({'mech': 'closed-early', 'msg': f"{uid}: finalizer released by request #{fr.idx} while deletion handlers {missing} had no final outcome",
                             'witness': {'write': fr.brief(), 'finals': finals[-8:]}})
    # nothing left open at quiescence
    if w.quiesced and any(inc.t_start is not None for inc in w.incs.values()):
        alive_ops = [i for i in w.incs.values() if not i.killed and (i.t_end is None or i.t_end >= (w.t_quiesced or 0))]
        if alive_ops:
            for uid in ix.uids:
                last = w.history[uid][-1]
                if last['type'] == 'DELETED':
                    continue
                at_q = w.body_at(uid, _rv_at_g(w, uid, _g_of_note(w, 'quiesced')))
                left = sv.any_progress_keys(at_q)
                if left:
                    viol.append({'mech': 'records-left', 'msg': f"{uid}: progress records {left} remain on the object at quiescence",
                                 'witness': {'annotations': (at_q or {}).get('metadata', {}).get('annotations'), 'status': (at_q or {}).get('status')}})
    return viol


def _unfiltered(ix: Index, hids: list[str]) -> bool:
    for h in hids:
        o = ix.specs[h].get('opts') or {}
        if any(k in o for k in ('labels', 'annotations', 'when', 'field', 'value', 'old', 'new')):
            return False
    return True


def _g_of_note(w: World, what: str) -> int:
    for e in w.events:
        if e['k'] == 'note' and e['what'] == what:
            return e['g']
    return 1 << 60


def _rv_at_g(w: World, uid: str, g: int) -> int:
    rv = 0
    for v in w.history.get(uid, []):
        if v['g'] <= g:
            rv = v['rv']
    return rv


def _brief(e: dict[str, Any]) -> dict[str, Any]:
    return {k: e.get(k) for k in ('g', 't', 'inc', 'h', 'uid', 'rv', 'retry', 'reason', 'deleting', 'finalizers') if k in e}


def trace_lines(w: World, plural: str = 'kopfexamples') -> list[str]:
    """Human-readable merged trace (for --replay)."""
    items: list[tuple[int, str]] = []
    for e in w.events:
        if e['k'] == 'call':
            items.append((e['g'], f"{e['t']:>10.6f} CALL  {e['inc']} {e['h']} uid={e['uid']} rv={e['rv']} retry={e['retry']} reason={e['reason']}"
                          + (' POST-MORTEM' if e.get('post_mortem') else '')))
        elif e['k'] == 'ret':
            items.append((e['g'], f"{e['t']:>10.6f} RET   {e['inc']} {e['h']} uid={e['uid']} -> {e['outcome']}"))
        else:
            items.append((e['g'], f"{e['t']:>10.6f} {e['k'].upper():5} {e.get('inc', '')} {e['what']} { {k: v for k, v in e.items() if k not in ('k', 'g', 't', 'inc', 'what')} }"))
    for r in w.requests:
        if r.kind in ('discovery',):
            continue
        items.append((r.g, f"{r.t:>10.6f} REQ   {r.client} #{r.n} {r.method} {r.path} {r.ctype or ''} -> {r.status} rv={r.result_rv} "
                      f"{'FAULT=' + r.fault if r.fault else ''} {r.payload if r.payload is not None else ''}"))
    for uid, vs in w.history.items():
        for v in vs:
            if v['plural'] == plural:
                m = v['body']['metadata']
                items.append((v['g'], f"{v['t']:>10.6f} SRV   {v['type']} {uid} rv={v['rv']} by={v['writer']} spec={v['body'].get('spec')} "
                              f"fin={m.get('finalizers')} del={bool(m.get('deletionTimestamp'))} ann={sorted((m.get('annotations') or {}).keys())}"))
    items.sort()
    return [s for _, s in items]


def oracle_convergence(w: World, ix: Index | None = None) -> list[dict[str, Any]]:
    """C03: level-triggered convergence, judged at quiescence."""
    from kv.refmodels import json_eq_mod_null
    ix = ix or Index(w)
    sv = ix.sv
    viol: list[dict[str, Any]] = []
    if w.quiesced is False:
        viol.append({'mech': 'no-quiescence', 'msg': 'handling did not terminate: the operator kept sending requests until the horizon', 'witness':
                     [r.brief() for r in w.requests[-6:]]})
        return viol
    if not w.quiesced:
        return viol
    gq = _g_of_note(w, 'quiesced')
    alive = [i for i in w.incs.values() if not i.killed and i.t_start is not None and (i.t_end is None or i.t_end >= (w.t_quiesced or 0))]
    if not alive:
        return viol
    by_kind: dict[str, list[str]] = {}
    for hid, spec in ix.specs.items():
        if spec['kind'] in ('create', 'update', 'delete'):
            by_kind.setdefault(spec['kind'], []).append(hid)
    for uid in ix.uids:
        versions = [v for v in w.history[uid] if v['g'] <= gq]
        if not versions:
            continue
        last = versions[-1]
        final = last['body']
        if last['type'] == 'DELETED':
            continue
        meta = final['metadata']
        if meta.get('deletionTimestamp'):
            if sv.has_finalizer(final):
                viol.append({'mech': 'deletion-stuck', 'msg': f"{uid}: still marked for deletion and held by the framework's finalizer at quiescence", 'witness': {'metadata': meta}})
            continue
        ess = essence(final, own_prefixes=(sv.prefix,))
        base = sv.diffbase(final)
        left = sv.any_progress_keys(final)
        if left:
            viol.append({'mech': 'records-left', 'msg': f'{uid}: progress records {left} remain at quiescence', 'witness': None})
        if base is None or not json_eq_mod_null(base, ess):
            viol.append({'mech': 'last-handled-state-stale', 'msg': f'{uid}: recorded last-handled state {base!r} != final essential state {ess!r} at quiescence',
                         'witness': {'annotations': meta.get('annotations'), 'status': final.get('status')}})
            continue
        # (e) the handlers of the last closed cycle completed against the final essential state
        closes = [cw for cw in ix.closing_writes(uid) if cw.g <= gq]
        if not closes:
            continue
        last_close = closes[-1]
        prev_g = closes[-2].g if len(closes) > 1 else 0
        before = w.body_at(uid, last_close.prev_rv)
        window_calls = [c for c in ix.calls if c['uid'] == uid and c['kind'] in CHANGING and prev_g < c['g'] <= last_close.g and c.get('reason')]
        reason = window_calls[-1]['reason'] if window_calls else ('create' if sv.diffbase(before) is None else 'update')
        if reason not in ('create', 'update'):
            continue
        for h in by_kind.get(reason, []):
            if not _unfiltered(ix, [h]):
                continue
            spec = ix.specs[h]
            if spec.get('subs'):
                continue
            finals = [ix.rets[c['seq']] for c in window_calls if c['h'] == h and c['seq'] in ix.rets and ix.is_final(ix.rets[c['seq']])]
            # finished earlier in this cycle (record still on the server before the closing write) also counts as done
            if not finals:
                earlier = [c for c in ix.calls if c['uid'] == uid and c['h'] == h and c['g'] <= last_close.g and c['seq'] in ix.rets and ix.is_final(ix.rets[c['seq']])]
                if not earlier:
                    continue   # closure without this handler is C02's business
                fc = earlier[-1]
            else:
                fc = next(c for c in window_calls if c['seq'] == finals[-1]['seq'])
            seen = {'spec': fc.get('spec')} if fc.get('spec') is not None else {}
            m = {}
            if fc.get('labels'):
                m['labels'] = fc['labels']
            ann = {k: v for k, v in (fc.get('annotations') or {}).items() if not k.startswith(sv.prefix + '/') and not k.startswith('kopf.zalando.org/')}
            if ann:
                m['annotations'] = ann
            if m:
                seen['metadata'] = m
            if not json_eq_mod_null(_only(seen), _only(ess)):
                # an external essential write between that handler's final outcome and the closure of the cycle?
                # ... after that handler's last invocation had taken its view (it may still have been running)
                view_rv = int(fc['rv']) if str(fc.get('rv') or '').isdigit() else 0
                ext = [v for v in versions if v['rv'] > view_rv and v['g'] <= last_close.g and v['writer'] in ('actor', 'slip')
                       and not json_eq_mod_null(_only(essence(v['body'], (sv.prefix,))), _only(seen))]
                mech = 'mid-cycle-change-hidden-from-finished-handler' if ext else 'handled-on-stale-state'
                viol.append({'mech': mech, 'msg': f"{uid}: {h} completed on essential state {_only(seen)!r}, the object ended as {_only(ess)!r}; the cycle was closed without "
                             f"{h} ever seeing the final state" + (" (an essential change arrived after it had finished, before the cycle closed)" if ext else ''),
                             'witness': {'handler_call': _brief(fc), 'closing_write': last_close.brief()}})
    return viol


def _only(e: dict[str, Any]) -> dict[str, Any]:
    return {k: v for k, v in e.items() if k in ('spec', 'metadata')}


def operator_feed(w: Any, inc: str, plural: str = 'kopfexamples') -> list[dict[str, Any]]:
    """
    What one operator incarnation was GIVEN about one resource kind, in the order of delivery: the items of every successful
    listing (type None, at the instant the response was complete) and every watch event of its streams.
    Entries: {'t', 'type', 'uid', 'rv', 'body', 'src': 'list'|'watch'}.
    """
    out: list[tuple[float, int, dict[str, Any]]] = []
    order = 0
    for lr in w.requests:
        if lr.client != inc or lr.kind != 'list' or lr.plural != plural or lr.status != 200 or lr.result_rv is None:
            continue
        rv = int(lr.result_rv)
        for uid, vs in w.history.items():
            if vs[0]['plural'] != plural:
                continue
            upto = [v for v in vs if v['rv'] <= rv]
            if upto and upto[-1]['type'] != 'DELETED':
                order += 1
                out.append((lr.t_done, order, {'t': lr.t_done, 'type': None, 'uid': uid, 'rv': upto[-1]['rv'], 'body': upto[-1]['body'], 'src': 'list'}))
    for st in w.sim.kube.streams:
        if st.client.name != inc or st.plural != plural:
            continue
        for t, typ, uid, rv in st.delivered:
            if uid is None or typ not in ('ADDED', 'MODIFIED', 'DELETED'):
                continue
            b = next((v['body'] for v in w.history[uid] if str(v['rv']) == str(rv)), None)
            if b is None:
                continue
            order += 1
            out.append((t, order, {'t': t, 'type': typ, 'uid': uid, 'rv': int(rv), 'body': b, 'src': 'watch'}))
    out.sort(key=lambda x: (x[0], x[1]))
    return [e for _, _, e in out]

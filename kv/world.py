"""
Generic closed-loop scenario executor: a JSON-able description in, a recorded World out.

desc = {
  'seed': int, 'resources': 'kex'|'kex_s', 'handlers': [spec,...], 'namespaces': ['ns1'],
  'settings': {'queueing__idle_timeout': 1.0, ...},     # dunder-dotted attributes of OperatorSettings
  'storage': 'default'|'annotations'|'status'|'smart', 'prefix': 'kopf.zalando.org', 'lifecycle': 'asap'|...,
  'kube': {'del_keep_finalizer': bool, 'del_bump_patch_rv': bool},
  'timeline': [[t, op, *args], ...]  sorted by t. ops:
       actor:    create name body | edit name patch | delete name | force_remove name | status name patch   (name may be 'ns/name')
       cluster:  ns_add name | ns_del name | crd_add resdef | crd_del plural [group]
       operator: start inc | stop inc | kill inc | cancel inc
       server:   compact | break how | bookmark
       auth:     revoke inc      (the operator's current token is revoked; needs a 'login' handler to recover)
       peers:    peer identity priority lifetime | unpeer identity     (a foreign operator's record in the peering object; needs 'peering')
  'peering': {'name': 'default'}            # cluster-wide peering object; operators are then NOT standalone
  'faults': [{'client': inc|None, 'match': {'kind': 'patch', ...}, 'nth': k|[k..]|None, 'window': [t1, t2]|None, 'actions': [[kind, {...}], ...]}]
  'lag': {'plural': 'kopfexamples', 'values': [0.0, 0.3], 'only_client': None}
  'restart_after_kill': {'delay': 1.0, 'max': 3} | None
  'quiet': 30.0, 'horizon': 2000.0, 'end': 'stop'|'leave'
}
"""
from __future__ import annotations

import asyncio
import os
import random
from typing import Any

from kv import fakekube
from kv.driver import Incarnation, Sim
from kv.recorder import build_registry

KEXGROUP = ('kopfexamples',)


def make_storage(settings: Any, storage: str, prefix: str | None) -> None:
    import kopf
    prefix = prefix or 'kopf.zalando.org'
    if storage in ('default', None):
        if prefix != 'kopf.zalando.org':
            settings.persistence.progress_storage = kopf.SmartProgressStorage(prefix=prefix)
            settings.persistence.diffbase_storage = kopf.AnnotationsDiffBaseStorage(prefix=prefix)
            settings.persistence.finalizer = f'{prefix}/KopfFinalizerMarker'
    elif storage == 'annotations':
        settings.persistence.progress_storage = kopf.AnnotationsProgressStorage(prefix=prefix)
        settings.persistence.diffbase_storage = kopf.AnnotationsDiffBaseStorage(prefix=prefix)
        settings.persistence.finalizer = f'{prefix}/KopfFinalizerMarker'
    elif storage == 'status':
        settings.persistence.progress_storage = kopf.StatusProgressStorage()
        settings.persistence.diffbase_storage = kopf.StatusDiffBaseStorage()
    elif storage == 'smart':
        settings.persistence.progress_storage = kopf.SmartProgressStorage(prefix=prefix)
        settings.persistence.diffbase_storage = kopf.MultiDiffBaseStorage([
            kopf.AnnotationsDiffBaseStorage(prefix=prefix), kopf.StatusDiffBaseStorage()])
        settings.persistence.finalizer = f'{prefix}/KopfFinalizerMarker'
    else:
        raise ValueError(storage)


def get_lifecycle(name: str | None) -> Any:
    import kopf
    if name in (None, 'default'):
        return None
    return getattr(kopf.lifecycles, name)


def syncify(desc: dict[str, Any], rng: random.Random, p_case: float = 0.2, p_handler: float = 0.6) -> dict[str, Any]:
    """
    Turn a share of a scenario's handlers into synchronous functions (``def``): kopf runs those in its thread pool, with the
    thread-side stop flag for daemons; kv.vthreads keeps the clock virtual meanwhile. The scripts stay what they are.
    A thread cannot be cancelled, so the cancellation-dependent daemon personas become lingering ones.
    """
    if rng.random() >= p_case:
        return desc
    n = 0
    for h in desc.get('handlers') or []:
        if h.get('kind') not in ('create', 'update', 'delete', 'resume', 'field', 'timer', 'daemon'):
            continue
        if h.get('explicit_execute') or h.get('subs_before_outcome') or h.get('fail_after_subs'):
            continue        # kopf.execute() is a coroutine: parents calling it stay asynchronous
        for sub in h.get('subs') or []:
            if rng.random() < p_handler:
                sub['sync'] = True
                n += 1
        if rng.random() >= p_handler:
            continue
        if h['kind'] == 'daemon':
            persona = h.get('persona') or {'type': 'obedient'}
            if persona.get('type') in ('stubborn', 'swallow'):
                h['persona'] = {'type': 'linger', 'linger': rng.choice([4.0, 8.0])}
        h['sync'] = True
        n += 1
    if n:
        desc['sync_handlers'] = n
    return desc


class World:
    def __init__(self, desc: dict[str, Any]) -> None:
        self.desc = desc
        self.sim: Sim
        self.quiesced: bool | None = None
        self.t_timeline_end: float = 0.0
        self.t_quiesced: float | None = None
        self.incs: dict[str, Incarnation] = {}
        self.exited_in_time: dict[str, bool] = {}
        self.notes: list[str] = []

    # convenient views
    @property
    def events(self) -> list[dict[str, Any]]:
        return self.sim.rec.events

    @property
    def requests(self) -> list[fakekube.Request]:
        return self.sim.kube.requests

    @property
    def history(self) -> dict[str, list[dict[str, Any]]]:
        return self.sim.kube.history

    def body_at(self, uid: str, rv: int | str) -> dict[str, Any] | None:
        rv = int(rv)
        last = None
        for v in self.sim.kube.history.get(uid, []):
            if v['rv'] <= rv:
                last = v
            else:
                break
        return last['body'] if last is not None else None


def run_world(desc: dict[str, Any], *, scoped: bool = True, capture_logs: bool = False) -> World:
    w = World(desc)
    res = {'kex': [fakekube.KEX], 'kex_s': [fakekube.KEX_S]}[desc.get('resources', 'kex')]
    extra = desc.get('extra_resources') or []
    peering = desc.get('peering')
    if peering:
        res = res + ([fakekube.NS_PEERING] if peering.get('namespaced') else [fakekube.CLUSTER_PEERING])
    sim = Sim(resources=res + [fakekube.resdef(**r) for r in extra], seed=desc.get('seed', 0), scoped=scoped, capture_logs=capture_logs,
              namespaces=tuple(desc.get('namespaces', ['ns1'])), **(desc.get('kube') or {}))
    w.sim = sim
    rng = random.Random(desc.get('seed', 0) ^ 0xFACE)
    registry = build_registry(sim.rec, desc['handlers'])
    kube = sim.kube
    plural = desc.get('plural', 'kopfexamples')
    ns = desc.get('ns', 'ns1')

    def mk_settings(over: dict[str, Any] | None = None) -> Any:
        s = sim.settings(**{**(desc.get('settings') or {}), **(over or {})})
        if peering:
            s.peering.standalone = False
            s.peering.mandatory = not peering.get('namespaced')      # (namespaced: namespaces that come later have no peering object of their own)
            s.peering.name = peering.get('name', 'default')
        make_storage(s, desc.get('storage', 'default'), desc.get('prefix'))
        return s

    # ---- faults -------------------------------------------------------------------------
    rules = desc.get('faults') or []
    counters: dict[int, int] = {}

    def fault_fn(req: fakekube.Request) -> list[fakekube.Fault] | None:
        out: list[fakekube.Fault] = []
        for i, rule in enumerate(rules):
            if rule.get('client') is not None and rule['client'] != req.client:
                continue
            m = rule.get('match') or {}
            if any(getattr(req, k, None) != v for k, v in m.items()):
                continue
            win = rule.get('window')
            if win is not None and not (win[0] <= req.t <= win[1]):
                continue
            counters[i] = counters.get(i, 0) + 1
            nth = rule.get('nth')
            if nth is not None and counters[i] != nth and not (isinstance(nth, list) and counters[i] in nth):
                continue
            for kind, kw in rule['actions']:
                kw = dict(kw or {})
                if kind == 'slip':
                    op = kw.pop('op')
                    kw['fn'] = (lambda op: (lambda k: apply_actor(op)))(op)
                out.append(fakekube.Fault(kind, **kw))
        return out or None
    if rules:
        kube.fault_fn = fault_fn

    lag = desc.get('lag')
    if lag:
        def lag_fn(s: fakekube.WatchStream, ev: dict[str, Any]) -> float:
            if s.plural != lag.get('plural', plural):
                return 0.0
            own = str(kube.writer).startswith('op')
            vals = lag.get('own', lag.get('values', [0.0])) if own else lag.get('foreign', lag.get('values', [0.0]))
            return rng.choice(vals)
        kube.lag_fn = lag_fn
    kube.post_yields = int(os.environ.get('KV_POST_YIELDS') or desc.get('post_yields', 0))      # the env override is for exploration runs only
    # Requests take 1us of virtual time by default: in reality every cycle costs wall time, so float noise such as
    # 'age = 2.9999999999999996 < backoff = 3' resolves itself; with a frozen clock it would re-arm forever at one instant.
    kube.base_latency = float(desc.get('latency', 1e-6))

    # ---- actor ---------------------------------------------------------------------------
    def apply_actor(op: list[Any]) -> None:
        nonlocal plural
        kind = op[0]
        saved = plural
        if '@' in kind:
            kind, plural = kind.split('@', 1)
        try:
            _apply_actor(kind, op)
        finally:
            plural = saved

    def _apply_actor(kind: str, op: list[Any]) -> None:
        nonlocal ns
        saved_ns = ns
        if len(op) > 1 and isinstance(op[1], str) and '/' in op[1] and kind in ('create', 'edit', 'delete', 'force_remove', 'fin_add', 'fin_del'):
            op = list(op)
            ns, op[1] = op[1].split('/', 1)       # 'ns2/o1': an object in another namespace
        try:
            _apply_actor2(kind, op)
        finally:
            ns = saved_ns

    def _apply_actor2(kind: str, op: list[Any]) -> None:
        if kind == 'ns_add':
            if kube.get('namespaces', None, op[1]) is None:
                kube.create('namespaces', None, op[1], {'apiVersion': 'v1', 'kind': 'Namespace'})
            return
        if kind == 'ns_del':
            for key in [k for k in list(kube.objs) if k[1] == op[1]]:
                kube.force_remove(key[0], key[1], key[2])
                kube.delete(key[0], key[1], key[2])
            kube.delete('namespaces', None, op[1])
            return
        if kind == 'crd_add':
            kube.add_resource(fakekube.resdef(**op[1]))
            return
        if kind == 'crd_del':
            kube.remove_resource(op[1], op[2] if len(op) > 2 else 'kopf.dev')
            return
        if kind == 'create':
            name, body = op[1], op[2]
            if kube.get(plural, ns, name) is None:
                r = kube.find_resource(plural)
                b = {'apiVersion': f"{r['group']}/{r['version']}" if r else 'kopf.dev/v1', 'kind': r['kind'] if r else 'KopfExample'}
                b.update(body)
                kube.create(plural, ns, name, b)
        elif kind == 'edit':
            kube.edit(plural, ns, op[1], op[2])
        elif kind == 'delete':
            kube.delete(plural, ns, op[1])
        elif kind == 'force_remove':
            kube.force_remove(plural, ns, op[1])
        elif kind == 'fin_add':
            cur = kube.get(plural, ns, op[1])
            if cur is not None:
                fins = list(cur['metadata'].get('finalizers') or [])
                if op[2] not in fins:
                    fins.insert(op[3] if len(op) > 3 and op[3] is not None else len(fins), op[2])
                    kube.edit(plural, ns, op[1], {'metadata': {'finalizers': fins}})
        elif kind == 'fin_del':
            cur = kube.get(plural, ns, op[1])
            if cur is not None:
                fins = [f for f in (cur['metadata'].get('finalizers') or []) if f != op[2]]
                kube.edit(plural, ns, op[1], {'metadata': {'finalizers': fins or None}})
        elif kind == 'peer':
            from kv import vtime
            rec = {'priority': op[2], 'lifetime': op[3], 'lastseen': vtime.iso(sim.now())}
            rec.update(op[4] if len(op) > 4 and op[4] else {})
            if peering.get('namespaced'):
                kube.edit('kopfpeerings', op[5], peering.get('name', 'default'), {'status': {op[1]: rec}})      # ['peer', identity, priority, lifetime, extra, namespace]
                return
            kube.edit('clusterkopfpeerings', None, peering.get('name', 'default'), {'status': {op[1]: rec}})
        elif kind == 'peer_raw':
            from kv import vtime
            rec = {k: (vtime.iso(sim.now()) if v == '$now' else v) for k, v in dict(op[2]).items()}
            kube.edit('clusterkopfpeerings', None, peering.get('name', 'default'), {'status': {op[1]: rec}})
        elif kind == 'unpeer':
            if peering.get('namespaced'):
                kube.edit('kopfpeerings', op[2], peering.get('name', 'default'), {'status': {op[1]: None}})
                return
            kube.edit('clusterkopfpeerings', None, peering.get('name', 'default'), {'status': {op[1]: None}})
        elif kind == 'revoke':
            # the current credentials of an operator stop being valid
            c = kube.clients.get(op[1])
            if c is not None and c.token is not None:
                kube.revoke(c.token)
        elif kind == 'compact':
            kube.compact(plural)
        elif kind == 'break':
            kube.break_streams(plural, op[1])
        elif kind == 'bookmark':
            kube.bookmark(plural)
        else:
            raise ValueError(op)

    op_kwargs = desc.get('operator_kwargs') or {}

    def start_inc(name: str, over: dict[str, Any] | None = None) -> Incarnation:
        inc = sim.operator(name, registry, mk_settings(over), lifecycle=get_lifecycle(desc.get('lifecycle')), **dict(op_kwargs))
        w.incs[name] = inc
        inc.start()
        rak = desc.get('restart_after_kill')
        if rak:
            def on_kill() -> None:
                n = len([i for i in w.incs if i.startswith('op')])
                if n < rak.get('max', 3) + 1:
                    if inc.task is not None and not inc.task.done():
                        inc.killed = True
                        sim.rec.op_event(inc.name, 'killed')
                        inc.task.cancel()
                    sim.loop.call_later(round(rak.get('delay', 1.0), 6), start_inc, f'op{n + 1}')
            inc.client.on_kill = on_kill
        return inc

    async def scenario(sim: Sim) -> None:
        if peering and peering.get('namespaced'):
            for ns_ in desc.get('namespaces', ['ns1']):
                kube.create('kopfpeerings', ns_, peering.get('name', 'default'), {'apiVersion': 'kopf.dev/v1', 'kind': 'KopfPeering'})
        elif peering:
            kube.create('clusterkopfpeerings', None, peering.get('name', 'default'), {'apiVersion': 'kopf.dev/v1', 'kind': 'ClusterKopfPeering'})
            for other, status in (peering.get('others') or {}).items():
                # peering objects of other operator groups (another name): their records are none of this group's business
                from kv import vtime
                st = {k: {kk: (vtime.iso(sim.now()) if vv == '$now' else vv) for kk, vv in rec.items()} for k, rec in status.items()}
                kube.create('clusterkopfpeerings', None, other, {'apiVersion': 'kopf.dev/v1', 'kind': 'ClusterKopfPeering', 'status': st})
        for t, op, *args in desc.get('timeline', []):
            await sim.sleep_until(t)
            if op == 'start':
                start_inc(args[0], args[1] if len(args) > 1 else None)     # optional per-operator settings (dunder keys)
            elif op == 'stop':
                if args[0] in w.incs:
                    w.incs[args[0]].stop()
            elif op == 'stop_wait':
                if args[0] in w.incs:
                    w.exited_in_time[args[0]] = await w.incs[args[0]].stop_and_wait(args[1] if len(args) > 1 else 600.0)
            elif op == 'kill':
                if args[0] in w.incs:
                    w.incs[args[0]].kill()
            elif op == 'cancel':
                if args[0] in w.incs:
                    w.incs[args[0]].cancel()
            else:
                prev, kube.writer = kube.writer, 'actor'
                try:
                    apply_actor([op, *args])
                finally:
                    kube.writer = prev
        w.t_timeline_end = sim.now()
        quiet = desc.get('quiet')
        if quiet:
            w.quiesced = await sim.quiesce(quiet, desc.get('horizon', sim.now() + 3600.0))
            w.t_quiesced = sim.now()
        sim.rec.note('quiesced', ok=w.quiesced)
        if desc.get('end', 'stop') == 'stop':
            for name, inc in list(w.incs.items()):
                if inc.running and not inc.killed:
                    w.exited_in_time[name] = await inc.stop_and_wait(desc.get('exit_wait', 900.0))

    sim.run(scenario)
    return w

"""Worker process: runs a batch of cases of one check sequentially, one JSON line per case."""
from __future__ import annotations

import faulthandler
import json
import sys
import traceback
from typing import Any

from kv import env


def prepare(mod: Any) -> None:
    env.setup_paths()
    env.assert_kopf_root()
    if getattr(mod, 'STALL', False):
        from kv.monitors import Stall
        Stall.install()
    if hasattr(mod, 'prepare'):
        mod.prepare()


def main() -> int:
    cid, casefile, outfile, per_case = sys.argv[1], sys.argv[2], sys.argv[3], float(sys.argv[4])
    env.setup_paths()
    from kv import runner
    mod = runner.load_check(cid)
    prepare(mod)
    with open(casefile) as f:
        items = json.load(f)
    with open(outfile, 'a') as out:
        for item in items:
            faulthandler.dump_traceback_later(per_case, exit=True)
            try:
                r = runner.run_case_sanitized(mod, item['case'])
            except BaseException as e:  # harness error: reported, never a verdict
                if isinstance(e, KeyboardInterrupt):
                    raise
                r = {'violations': [], 'cov': {}, 'sig': None, 'nontrivial': False,
                     'error': ''.join(traceback.format_exception(type(e), e, e.__traceback__))[-4000:]}
            finally:
                faulthandler.cancel_dump_traceback_later()
            r['case_index'] = item['case_index']
            r.pop('trace', None)
            out.write(json.dumps(r, default=str) + '\n')
            out.flush()
    return 0


if __name__ == '__main__':
    rc = main()
    sys.stdout.flush()
    sys.stderr.flush()
    import os
    os._exit(rc)        # never wait for a handler thread that some simulation has left behind

"""
Operator driver: runs whole ``kopf.operator()`` incarnations against a FakeKube on virtual time.

* ``Sim``          one universe: event loop (looptime), FakeKube, Recorder, seeded ``random``.
* ``Incarnation``  one call of ``kopf.operator(...)`` in its own task and contextvars context,
                   with fresh memories/indexers/insights/vault; can be stopped, cancelled, killed.
"""
from __future__ import annotations

import asyncio
import contextvars
import logging
import random
import warnings
from typing import Any, Awaitable, Callable

from kv import fakekube, vtime

op_var: contextvars.ContextVar[str | None] = contextvars.ContextVar('kv_operator', default=None)

_scoping_installed = False
_orig_all_tasks: Any = None


def install_task_scoping() -> None:
    """Emulate the process boundary between coexisting operators (DESIGN 2.3)."""
    global _scoping_installed, _orig_all_tasks
    if _scoping_installed:
        return
    from kopf._cogs.aiokits import aiotasks

    _orig_all_tasks = aiotasks.all_tasks

    async def scoped_all_tasks(*, ignored: Any = frozenset()) -> Any:
        me = op_var.get()
        cur = asyncio.current_task()
        return {t for t in asyncio.all_tasks()
                if t is not cur and t not in ignored and t.get_context().get(op_var) == me}

    aiotasks.all_tasks = scoped_all_tasks  # type: ignore[assignment]
    _scoping_installed = True


def uninstall_task_scoping() -> None:
    global _scoping_installed
    if _scoping_installed:
        from kopf._cogs.aiokits import aiotasks
        aiotasks.all_tasks = _orig_all_tasks
        _scoping_installed = False


_toggle_probe_installed = False
_current_rec: Any = None


def install_toggle_probe() -> None:
    """Record every turn of a named kopf Toggle (operator pause/resume, indexing blockers) as a note: observation only."""
    global _toggle_probe_installed
    if _toggle_probe_installed:
        return
    from kopf._cogs.aiokits import aiotoggles
    orig = aiotoggles.Toggle.turn_to

    async def turn_to(self: Any, state: bool) -> None:
        before = self.is_on()
        await orig(self, state)
        rec = _current_rec
        if rec is not None and before != bool(state):
            rec.note('toggle', inc=op_var.get(), name=self.name, to=bool(state))
    aiotoggles.Toggle.turn_to = turn_to  # type: ignore[method-assign]
    _toggle_probe_installed = True


class LogCapture(logging.Handler):
    def __init__(self) -> None:
        super().__init__(level=logging.DEBUG)
        self.records: list[tuple[float, str, int, str]] = []
        self.enabled = False

    def emit(self, record: logging.LogRecord) -> None:
        if not self.enabled:
            return
        try:
            t = asyncio.get_running_loop().time()
        except RuntimeError:
            t = -1.0
        try:
            msg = record.getMessage()
        except Exception:  # pragma: no cover
            msg = str(record.msg)
        self.records.append((t, record.name, record.levelno, msg))


_log_capture = LogCapture()


def setup_logging(capture: bool = False) -> LogCapture:
    root = logging.getLogger()
    kl = logging.getLogger('kopf')
    kl.propagate = False
    kl.setLevel(logging.DEBUG if capture else logging.CRITICAL + 1)
    if _log_capture not in kl.handlers:
        kl.addHandler(_log_capture)
    _log_capture.enabled = capture
    _log_capture.records.clear()
    root.setLevel(logging.CRITICAL + 1)
    logging.getLogger('asyncio').setLevel(logging.CRITICAL + 1)
    return _log_capture


class Incarnation:
    def __init__(self, sim: "Sim", name: str, registry: Any, settings: Any, kwargs: dict[str, Any]) -> None:
        self.sim = sim
        self.name = name
        self.registry = registry
        self.settings = settings
        self.kwargs = kwargs
        self.client = sim.kube.client(name)
        self.client.token = f'{name}-tok0'
        self.stop_flag: asyncio.Event | None = None
        self.ready_flag: asyncio.Event | None = None
        self.task: asyncio.Task[Any] | None = None
        self.t_start: float | None = None
        self.t_ready: float | None = None
        self.t_stop_requested: float | None = None
        self.t_end: float | None = None
        self.exc: BaseException | None = None
        self.cancelled = False
        self.killed = False
        self.memories: Any = None
        self.indexers: Any = None
        self.insights: Any = None

    # -- lifecycle -----------------------------------------------------------------
    def start(self) -> "Incarnation":
        import kopf
        from kopf._cogs.structs import credentials, references
        from kopf._core.engines import indexing
        from kopf._core.reactor import inventory

        self.stop_flag = asyncio.Event()
        self.ready_flag = asyncio.Event()
        self.memories = inventory.ResourceMemories()
        self.indexers = indexing.OperatorIndexers()
        self.insights = references.Insights()
        vault = self.kwargs.pop('vault', None)
        if vault is None:
            vault = credentials.Vault({'fake': credentials.AiohttpSession(server='http://fake', aiohttp_session=self.client)})
        kwargs = dict(registry=self.registry, settings=self.settings, vault=vault,
                      memories=self.memories, indexers=self.indexers, insights=self.insights,
                      stop_flag=self.stop_flag, ready_flag=self.ready_flag,
                      identity=self.kwargs.pop('identity', self.name))
        kwargs.update(self.kwargs)
        if 'clusterwide' not in kwargs and 'namespaces' not in kwargs:
            kwargs['clusterwide'] = True
        self.t_start = self.sim.now()
        ctx = contextvars.copy_context()
        ctx.run(op_var.set, self.name)

        async def main() -> None:
            try:
                with warnings.catch_warnings():
                    warnings.simplefilter('ignore')
                    await kopf.operator(**kwargs)
            except asyncio.CancelledError:
                self.cancelled = True
                raise
            except BaseException as e:
                self.exc = e
            finally:
                self.t_end = self.sim.now()
                self.sim.rec.op_event(self.name, 'exit', exc=repr(self.exc) if self.exc else None, cancelled=self.cancelled)

        self.task = self.sim.loop.create_task(main(), name=f'kv-op-{self.name}', context=ctx)

        async def ready_watch() -> None:
            assert self.ready_flag is not None
            await self.ready_flag.wait()
            self.t_ready = self.sim.now()
            self.sim.rec.op_event(self.name, 'ready')
        self._ready_task = self.sim.loop.create_task(ready_watch(), name=f'kv-ready-{self.name}', context=ctx)
        self.sim.rec.op_event(self.name, 'start')
        return self

    @property
    def running(self) -> bool:
        return self.task is not None and not self.task.done()

    def stop(self) -> None:
        if self.stop_flag is not None and not self.stop_flag.is_set():
            self.t_stop_requested = self.sim.now()
            self.sim.rec.op_event(self.name, 'stop_requested')
            self.stop_flag.set()

    def cancel(self) -> None:
        if self.task is not None and not self.task.done():
            self.t_stop_requested = self.sim.now()
            self.sim.rec.op_event(self.name, 'cancel_requested')
            self.task.cancel()

    def kill(self) -> None:
        """SIGKILL emulation: the client dies (no effect of anything sent later), the task is cancelled."""
        if self.killed:
            return
        self.killed = True
        self.sim.rec.op_event(self.name, 'killed')
        self.client.kill()
        if self.task is not None and not self.task.done():
            self.task.cancel()

    async def wait(self, timeout: float | None = None) -> bool:
        """Wait for the operator task to end. Returns False if it did not end within the (virtual) timeout."""
        if self.task is None:
            return True
        done, _ = await asyncio.wait({self.task}, timeout=timeout)
        if hasattr(self, '_ready_task') and not self._ready_task.done():
            self._ready_task.cancel()
        return bool(done)

    async def stop_and_wait(self, timeout: float | None = 600.0) -> bool:
        self.stop()
        return await self.wait(timeout)


# whatever asyncio's exception handler was given during the simulations of the current case (see runner.run_case_sanitized)
ALL_LOOP_ERRORS: list[dict[str, Any]] = []


class Sim:
    def __init__(self, *, resources: list[dict[str, Any]] | None = None, seed: int = 0, start: float = 0.0,
                 scoped: bool = True, capture_logs: bool = False, **kubekw: Any) -> None:
        random.seed(seed)
        self.seed = seed
        self.rng = random.Random(seed ^ 0x5EED)
        vtime.install()
        if scoped:
            install_task_scoping()
        else:
            uninstall_task_scoping()
        self.logs = setup_logging(capture_logs)
        self.loop = vtime.new_loop(start)
        self.loop_errors: list[dict[str, Any]] = []
        self.loop.set_exception_handler(self._on_loop_error)
        from kv.recorder import Recorder
        self.rec = Recorder(self)
        global _current_rec
        _current_rec = self.rec
        install_toggle_probe()
        self.kube = fakekube.FakeKube(resources if resources is not None else [fakekube.KEX], **kubekw)
        self.incarnations: list[Incarnation] = []
        self._timers: list[asyncio.TimerHandle] = []
        self.abandoned_tasks: list[str] = []
        self.max_calls = 6000         # handler invocations per run before it is called a runaway and ended (see Recorder.call)
        self.runaway = False

    def _on_loop_error(self, loop: asyncio.AbstractEventLoop, context: dict[str, Any]) -> None:
        le = {'t': loop.time(), 'message': context.get('message'), 'exception': repr(context.get('exception')),
              'task': repr(context.get('task') or context.get('future') or context.get('handle'))[:300]}
        self.loop_errors.append(le)
        ALL_LOOP_ERRORS.append(le)

    def now(self) -> float:
        return self.loop.time()

    def settings(self, fn: Callable[[Any], None] | None = None, **kw: Any) -> Any:
        import kopf
        s = kopf.OperatorSettings()
        s.peering.standalone = True
        s.posting.enabled = False
        s.scanning.disabled = False
        s.process.ultimate_exiting_timeout = None   # NB: it would send a REAL SIGKILL to this process
        for k, v in kw.items():
            obj = s
            parts = k.split('__')
            for p in parts[:-1]:
                obj = getattr(obj, p)
            setattr(obj, parts[-1], v)
        if fn is not None:
            fn(s)
        return s

    def operator(self, name: str, registry: Any, settings: Any = None, **kwargs: Any) -> Incarnation:
        inc = Incarnation(self, name, registry, settings if settings is not None else self.settings(), kwargs)
        self.incarnations.append(inc)
        return inc

    def at(self, when: float, fn: Callable[..., Any], *args: Any) -> None:
        """Schedule a synchronous action (typically an actor's write) at an absolute virtual instant."""
        self._timers.append(self.loop.call_at(round(when, 6), fn, *args))

    async def sleep_until(self, when: float) -> None:
        # NB: always on the loop's microsecond grid: a sub-resolution timer never fires under looptime.
        d = round(when - self.loop.time(), 6)
        if d > 0 and not self.runaway:
            await asyncio.sleep(d)

    async def sleep(self, d: float) -> None:
        d = round(d, 6)
        await asyncio.sleep(d if d > 0 else 0)

    async def quiesce(self, quiet: float, horizon: float, clients: tuple[str, ...] | None = None) -> bool:
        """
        Wait until no non-watch request has been received for ``quiet`` virtual seconds.
        Returns False if the absolute ``horizon`` was reached first (handling did not terminate).
        """
        t_begin = self.loop.time()

        def last_activity() -> float:
            t = t_begin   # at least ``quiet`` seconds after the last external change (= when this wait began)
            for r in reversed(self.kube.requests):
                if r.kind in ('watch', 'list', 'discovery'):
                    continue
                if clients is not None and r.client not in clients:
                    continue
                t = max(t, r.t)
                break
            return t
        while True:
            now = self.loop.time()
            la = last_activity()
            if self.runaway:
                return False
            if now - la >= quiet:
                return True
            if now >= horizon:
                return False
            await asyncio.sleep(round(min(max(la + quiet - now, 0.001), max(horizon - now, 0.001)), 6))

    def run(self, scenario: Callable[["Sim"], Awaitable[Any]]) -> Any:
        async def main() -> Any:
            try:
                return await scenario(self)
            finally:
                # never leave incarnations behind
                for inc in self.incarnations:
                    if inc.running:
                        inc.kill()
                for inc in self.incarnations:
                    if inc.task is not None and not inc.task.done():
                        try:
                            await asyncio.wait({inc.task}, timeout=3600)
                        except BaseException:
                            pass
        try:
            return self.loop.run_until_complete(main())
        finally:
            for h in self._timers:
                h.cancel()
            try:
                pending = [t for t in asyncio.all_tasks(self.loop) if not t.done()]
                for t in pending:
                    t.cancel()
                if pending:
                    # NB: always with a timeout: an idle looptime loop without timers blocks in a REAL select() forever.
                    _, left = self.loop.run_until_complete(asyncio.wait(pending, timeout=60))
                    self.abandoned_tasks = [t.get_name() for t in left]
            except BaseException:
                pass
            self.loop.close()
            asyncio.set_event_loop(None)
            from kv import vthreads
            vthreads.reset()          # handler threads still waiting (abandoned sync daemons, killed operators) unwind now

"""
Thread-aware virtual time: synchronous (``def``) handlers run in kopf's real thread pool while the clock stays virtual.

kopf runs sync handlers, timers and daemons through ``loop.run_in_executor``. looptime's own support for executors moves the
loop clock *in step with the real clock* while a thread is pending -- a sync daemon waiting for its stop flag would turn the
whole simulation into real time. Here the loop instead knows what every such thread is doing:

    queued    handed to the pool, not picked up yet
    running   executing Python code (it will either finish or block within microseconds of real time)
    blocked   waiting for something only the LOOP can make true (its stop flag, a virtual-time alarm); ``cond()`` says whether
              that has become true already (then the thread is about to run again)
    finished  the function has returned; the completion callback is on its way into the loop

and the virtual clock may only move while no thread is queued/running/about-to-wake ("thread quiescence"), i.e. when the
threads can do nothing until the loop does something first. Under that rule the joint execution is as deterministic as the
pure-asyncio one: real time never leaks into virtual time, thread work takes zero virtual time.

The gate sits in front of every loop iteration (``vtime.new_loop`` calls ``gate()``); it spins in real time (50 us naps)
only while the loop has nothing ready. A gate that cannot settle within GATE_TIMEOUT real seconds (a thread that neither
finishes nor blocks) is counted; the run is then inconclusive for the harness, never a verdict.
"""
from __future__ import annotations

import asyncio
import threading
import time
from typing import Any, Callable

GATE_TIMEOUT = 20.0
COUNTERS = {'thread_calls': 0, 'gate_waits': 0, 'gate_timeouts': 0, 'blocks': 0}

_tl = threading.local()
_pending: set["_State"] = set()
_lock = threading.Lock()


class _State:
    __slots__ = ('phase', 'cond', 'future')

    def __init__(self) -> None:
        self.phase = 'queued'
        self.cond: Callable[[], bool] | None = None
        self.future: Any = None


def _active(st: _State) -> bool:
    ph = st.phase
    if ph == 'blocked':
        c = st.cond
        try:
            return bool(c()) if c is not None else False
        except Exception:
            return True
    if ph == 'finished':
        return st.future is None or not st.future.done()
    return True         # queued, running


def install(loop: asyncio.AbstractEventLoop) -> None:
    """Route ``loop.run_in_executor`` around looptime's real-time stepping and register every submitted function."""
    base = asyncio.BaseEventLoop.run_in_executor

    def run_in_executor(executor: Any, func: Callable[..., Any], *args: Any) -> Any:
        st = _State()

        def wrapped() -> Any:
            _tl.st = st
            st.phase = 'running'
            COUNTERS['thread_calls'] += 1
            try:
                return func(*args)
            finally:
                st.phase = 'finished'
                _tl.st = None
        with _lock:
            _pending.add(st)
        fut = base(loop, executor, wrapped)
        st.future = fut

        def _done(_: Any) -> None:
            with _lock:
                _pending.discard(st)
        fut.add_done_callback(_done)
        return fut
    loop.run_in_executor = run_in_executor  # type: ignore[method-assign]


def reset() -> None:
    """A new simulation begins (or the last one has ended): forget the threads of the previous one and let them unwind."""
    _epoch[0] += 1
    with _lock:
        _pending.clear()


def gate(loop: Any) -> None:
    """Called before every loop iteration: hold the (virtual) clock until the threads can do nothing without the loop."""
    if not _pending:
        return
    if loop._ready:
        return
    t0 = None
    while not loop._ready:
        with _lock:
            sts = list(_pending)
        if not any(_active(st) for st in sts):
            return
        if t0 is None:
            t0 = time.monotonic()
            COUNTERS['gate_waits'] += 1
        elif time.monotonic() - t0 > GATE_TIMEOUT:
            COUNTERS['gate_timeouts'] += 1
            return
        time.sleep(0.00005)


# ---- what the scripted sync handlers use to wait ---------------------------------------------------------------------

class SimulationOver(BaseException):
    """Raised inside a handler thread that is still waiting when its simulation has ended (so that no thread outlives its case)."""


_epoch = [0]


def block_until(cond: Callable[[], bool], waiter: Callable[[float], Any]) -> None:
    """
    In a handler thread: declare what is awaited (``cond`` becomes true only through the loop), then really block in
    ``waiter(timeout)`` (e.g. kopf's ``stopped.wait``), in slices of a few real milliseconds so that a thread whose simulation
    has ended (``reset()``) unwinds instead of waiting for ever.
    """
    st = getattr(_tl, 'st', None)
    COUNTERS['blocks'] += 1
    epoch = _epoch[0]
    if st is not None:
        st.cond = cond
        st.phase = 'blocked'
    try:
        while not cond():
            if _epoch[0] != epoch:
                raise SimulationOver()
            waiter(0.002)
    finally:
        if st is not None:
            st.phase = 'running'
            st.cond = None


def vsleep(loop: asyncio.AbstractEventLoop, delay: float, also: Any = None) -> bool:
    """
    In a handler thread: sleep ``delay`` VIRTUAL seconds (an alarm set in the loop), or until the threading.Event-like
    ``also`` (e.g. the daemon's stop flag) is set, whichever comes first. Returns True if the alarm fired.
    """
    alarm = threading.Event()
    handle: list[Any] = []

    def arm() -> None:
        def fire() -> None:
            alarm.set()
        handle.append(loop.call_later(round(max(delay, 0.0), 6), fire))
    loop.call_soon_threadsafe(arm)
    if also is None:
        block_until(alarm.is_set, alarm.wait)
    else:
        def cond() -> bool:
            return alarm.is_set() or bool(also)
        block_until(cond, also.wait)
    fired = alarm.is_set() and not (also is not None and bool(also))
    if handle:
        loop.call_soon_threadsafe(handle[0].cancel)
    return fired

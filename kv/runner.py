"""
Parallel case runner, verdicts, replays, evidence, known findings (DESIGN 2.7).

A check module provides:
    ID, LEVEL, RULE, ASSUMPTIONS (list[str]), GATES (dict counter->min, on aggregated coverage)
    gen_cases(tier, seed) -> iterable of JSON-able case dicts (each with a 'name')
    run_case(case) -> {'violations': [{'mech': str, 'msg': str, 'witness': any}], 'cov': {str:int},
                       'sig': str|None, 'nontrivial': bool, 'sample': any|None, 'info': {...}}
    optional: STALL (bool) install the stall sanitizer in workers; TIMEOUT_PER_CASE (wall seconds, watchdog only)
    optional: finalize(agg) -> dict merged into coverage (may add violations via agg['violations'])
"""
from __future__ import annotations

import hashlib
import importlib
import json
import os
import subprocess
import sys
import tempfile
import time
from typing import Any

from kv import env

EXIT_HELD, EXIT_VIOLATION, EXIT_INCONCLUSIVE = 0, 1, 2


def load_check(cid: str) -> Any:
    return importlib.import_module(f'kv.checks.{cid.lower()}')


def load_known_findings() -> list[dict[str, Any]]:
    path = os.path.join(env.VERIF, 'known_findings.json')
    if not os.path.exists(path):
        return []
    with open(path) as f:
        return json.load(f).get('findings', [])


def case_hash(case: dict[str, Any]) -> str:
    return hashlib.sha1(json.dumps(case, sort_keys=True, default=str).encode()).hexdigest()[:12]


def run_cases_parallel(cid: str, cases: list[dict[str, Any]], jobs: int, per_case_timeout: float,
                       verbose: bool = False) -> tuple[list[dict[str, Any]], list[dict[str, Any]]]:
    """Returns (results, watchdog_failures). Each result has 'case_index'."""
    work = os.path.join(env.VERIF, '.work')
    os.makedirs(work, exist_ok=True)
    tmp = tempfile.mkdtemp(prefix=f'{cid}-', dir=work)
    results: list[dict[str, Any]] = []
    failures: list[dict[str, Any]] = []
    try:
        jobs = max(1, min(jobs, len(cases)))
        batches: list[list[int]] = [[] for _ in range(jobs)]
        for i in range(len(cases)):
            batches[i % jobs].append(i)
        pending = [(b, 0) for b in batches if b]   # (indices, attempt)
        running: list[tuple[subprocess.Popen[bytes], list[int], str, str, float]] = []
        seq = 0

        def spawn(indices: list[int]) -> None:
            nonlocal seq
            seq += 1
            cf = os.path.join(tmp, f'cases-{seq}.json')
            of = os.path.join(tmp, f'out-{seq}.jsonl')
            with open(cf, 'w') as f:
                json.dump([{'case_index': i, 'case': cases[i]} for i in indices], f)
            p = subprocess.Popen([env.PY, '-m', 'kv.worker', cid, cf, of, str(per_case_timeout)],
                                 env=env.child_env(), cwd=env.VERIF,
                                 stdout=subprocess.DEVNULL if not verbose else None,
                                 stderr=open(os.path.join(tmp, f'err-{seq}.txt'), 'wb'))
            running.append((p, indices, of, os.path.join(tmp, f'err-{seq}.txt'), time.time()))

        for b, _ in pending:
            spawn(b)
        while running:
            time.sleep(0.05)
            for item in list(running):
                p, indices, of, ef, t0 = item
                rc = p.poll()
                if rc is None:
                    # generous batch-level watchdog: never a verdict
                    if time.time() - t0 > per_case_timeout * len(indices) + 120:
                        p.kill()
                    continue
                running.remove(item)
                got: dict[int, dict[str, Any]] = {}
                if os.path.exists(of):
                    with open(of) as f:
                        for line in f:
                            line = line.strip()
                            if line:
                                try:
                                    r = json.loads(line)
                                    got[r['case_index']] = r
                                except Exception:
                                    pass
                results.extend(got.values())
                missing = [i for i in indices if i not in got]
                if missing:
                    # the first missing case is the one that killed the worker
                    bad = missing[0]
                    err = ''
                    try:
                        with open(ef, 'rb') as f:
                            err = f.read().decode(errors='replace')[-3000:]
                    except Exception:
                        pass
                    failures.append({'case_index': bad, 'case': cases[bad], 'rc': rc, 'stderr': err})
                    rest = missing[1:]
                    if rest:
                        spawn(rest)
    finally:
        import shutil
        shutil.rmtree(tmp, ignore_errors=True)
    results.sort(key=lambda r: r['case_index'])
    return results, failures


def run_check(cid: str, tier: str, seed: int, jobs: int = 16, replay: str | None = None,
              verbose: bool = False) -> int:
    t0 = time.time()
    env.ensure_deps()
    env.setup_paths()
    mod = load_check(cid)
    cid = mod.ID
    if replay:
        return run_replay(mod, replay)

    cases = list(mod.gen_cases(tier, seed))
    per_case_timeout = float(getattr(mod, 'TIMEOUT_PER_CASE', 60.0))
    results, failures = run_cases_parallel(cid, cases, jobs, per_case_timeout, verbose)

    cov: dict[str, int] = {}
    sigs: set[str] = set()
    nontrivial_sigs: set[str] = set()
    violations: list[dict[str, Any]] = []
    samples: list[Any] = []
    infos: list[Any] = []
    errors: list[dict[str, Any]] = []
    for r in results:
        for k, v in (r.get('cov') or {}).items():
            if isinstance(v, (int, float)):
                cov[k] = cov.get(k, 0) + int(v)
        sig = r.get('sig')
        if sig is not None:
            sigs.add(sig)
            if r.get('nontrivial', True):
                nontrivial_sigs.add(sig)
        for v in r.get('violations') or []:
            violations.append({**v, 'case_index': r['case_index']})
        if r.get('sample') is not None and len(samples) < 4:
            samples.append(r['sample'])
        if r.get('error'):
            errors.append({'case_index': r['case_index'], 'error': r['error']})
    agg = {'results': results, 'cov': cov, 'violations': violations, 'tier': tier, 'seed': seed, 'cases': cases}
    extra_cov: dict[str, Any] = {}
    if hasattr(mod, 'finalize'):
        extra_cov = mod.finalize(agg) or {}
        violations = agg['violations']

    # --- classify against the committed known findings
    known = [f for f in load_known_findings() if f.get('property') == cid and f.get('status') == 'known']
    known_mechs = {f['mechanism']: f for f in known}
    known_hits: dict[str, int] = {}
    real: list[dict[str, Any]] = []
    for v in violations:
        if v.get('mech') in known_mechs:
            known_hits[v['mech']] = known_hits.get(v['mech'], 0) + 1
        else:
            real.append(v)

    # --- replays for real violations
    replay_paths: list[str] = []
    seen_cases: set[int] = set()
    for v in real:
        ci = v.get('case_index')
        if ci in seen_cases or ci is None:
            continue
        seen_cases.add(ci)
        d = os.path.join(os.environ.get('VERIF_REPLAY_DIR') or os.path.join(env.VERIF, 'replays'), cid)
        os.makedirs(d, exist_ok=True)
        path = os.path.join(d, f'{case_hash(cases[ci])}.json')
        with open(path, 'w') as f:
            json.dump({'property': cid, 'tier': tier, 'seed': seed, 'kopf_root': env.KOPF_ROOT,
                       'case': cases[ci],
                       'violations': [x for x in real if x.get('case_index') == ci]}, f, indent=1, default=str)
        replay_paths.append(path)

    # --- verdict
    gates = dict(getattr(mod, 'GATES', {}))
    missed = {k: (cov.get(k, 0), m) for k, m in gates.items() if cov.get(k, 0) < m}
    inconclusive_reasons: list[str] = []
    if failures:
        inconclusive_reasons.append(f"{len(failures)} case(s) ended by the wall-clock watchdog or a worker crash")
    if errors:
        inconclusive_reasons.append(f"{len(errors)} case(s) raised a harness error")
    if missed and tier in ('quick', 'thorough'):
        inconclusive_reasons.append("coverage gate(s) missed: " + ', '.join(f'{k}={a}<{m}' for k, (a, m) in missed.items()))
    if not results:
        inconclusive_reasons.append("no case produced a result")

    wall = time.time() - t0
    evidence = {
        'property_id': cid, 'tier': tier, 'seed': seed, 'level': mod.LEVEL,
        'coverage': {
            'evaluations': len(results),
            'distinct_nontrivial': len(nontrivial_sigs),
            'rule': mod.RULE,
            'samples': samples or [cases[0] if cases else None],
            'distinct_signatures': len(sigs),
            'counters': cov,
            'gates': gates,
            'known_finding_hits': known_hits,
            'watchdog_or_crash': len(failures),
            'harness_errors': len(errors),
            'kopf_root': env.KOPF_ROOT,
            **extra_cov,
        },
        'assumptions': list(getattr(mod, 'ASSUMPTIONS', [])),
        'wall_s': round(wall, 2),
        'violations': len(real),
    }
    evdir = os.environ.get('VERIF_EVIDENCE_DIR') or os.path.join(env.VERIF, 'evidence')
    os.makedirs(evdir, exist_ok=True)
    with open(os.path.join(evdir, f'{cid}.json'), 'w') as f:
        json.dump(evidence, f, indent=1, default=str)

    for mech, n in sorted(known_hits.items()):
        print(f"KNOWN-FINDING: property={cid} {mech}: {known_mechs[mech].get('description', '')} (observed in {n} case(s))")
    for p in replay_paths:
        print(f"VIOLATION property={cid} replay={p}")
    if real and not replay_paths:
        print(f"VIOLATION property={cid} replay=none")
    for v in real[:10]:
        print(f"  - [{v.get('mech')}] {v.get('msg')}")
    if failures:
        for fl in failures[:3]:
            print(f"  watchdog/crash: case {fl['case'].get('name')} rc={fl['rc']}\n{fl['stderr'][-1500:]}")
    if errors:
        for e in errors[:3]:
            print(f"  harness error in case {cases[e['case_index']].get('name')}: {e['error'][-1500:]}")
    print(f"{cid} tier={tier} seed={seed}: cases={len(results)} distinct_nontrivial={len(nontrivial_sigs)} "
          f"violations={len(real)} known={sum(known_hits.values())} wall={wall:.1f}s")
    print("  coverage: " + ', '.join(f'{k}={v}' for k, v in sorted(cov.items())))
    if real:
        return EXIT_VIOLATION
    if inconclusive_reasons:
        print(f"INCONCLUSIVE property={cid} reason={'; '.join(inconclusive_reasons)}")
        return EXIT_INCONCLUSIVE
    return EXIT_HELD


def run_case_sanitized(mod: Any, case: dict[str, Any]) -> dict[str, Any]:
    """
    run_case plus the generic sanitizer of the closed-loop simulations: anything handed to asyncio's exception handler while the case
    ran (an exception raised inside a callback) means that some piece of the operator broke unnoticed.
    """
    from kv import driver, vthreads
    del driver.ALL_LOOP_ERRORS[:]
    gt0 = vthreads.COUNTERS['gate_timeouts']
    tc0 = vthreads.COUNTERS['thread_calls']
    r = mod.run_case(case)
    if vthreads.COUNTERS['thread_calls'] > tc0 and isinstance(r.get('cov'), dict):
        r['cov']['handler_calls_in_threads'] = vthreads.COUNTERS['thread_calls'] - tc0      # synchronous handlers run by kopf's thread pool
    if vthreads.COUNTERS['gate_timeouts'] > gt0:
        # a handler thread neither finished nor blocked within the real-time budget of the thread gate: virtual time may have leaked.
        # That is a failure of the harness (e.g. an exhausted thread pool, an overloaded machine), never a verdict about kopf.
        raise RuntimeError(f"thread gate timed out {vthreads.COUNTERS['gate_timeouts'] - gt0} time(s) in this case: inconclusive")
    if not getattr(mod, 'SANITIZE_LOOP_ERRORS', False):
        return r          # only the properties that speak about the operator's health (crash-freedom, fail-fast) judge it
    # Only what asyncio reports on the spot (an exception raised inside a callback or a protocol). 'Task exception was never retrieved' is
    # reported when the task object is garbage-collected -- possibly cases later -- and is benign where kopf re-raises the first of several
    # failed root tasks only; the checks that can attribute it (C09) judge it themselves.
    bad = [le for le in driver.ALL_LOOP_ERRORS if 'xception in' in str(le.get('message'))]
    if bad and not any(v.get('mech') == 'background-task-failed' for v in r.get('violations') or []):
        r.setdefault('violations', []).append({'mech': 'background-task-failed', 'msg': f"asyncio's exception handler was called at t={bad[0]['t']}: "
                                               f"{bad[0]['message']} {bad[0]['exception']} ({bad[0].get('task')})", 'witness': bad[:3]})
    r.setdefault('cov', {})
    return r


def run_replay(mod: Any, path: str) -> int:
    with open(path) as f:
        data = json.load(f)
    case = data['case']
    from kv import worker
    worker.prepare(mod)
    r = run_case_sanitized(mod, dict(case, _verbose=True))
    print(json.dumps({k: v for k, v in r.items() if k != 'trace'}, indent=1, default=str)[:20000])
    if r.get('trace'):
        print("---- trace ----")
        for line in r['trace'][:2000]:
            print(line)
    known = {f['mechanism'] for f in load_known_findings() if f.get('property') == mod.ID and f.get('status') == 'known'}
    real = [v for v in r.get('violations') or [] if v.get('mech') not in known]
    if real:
        print(f"VIOLATION property={mod.ID} replay={path}")
        return EXIT_VIOLATION
    return EXIT_HELD

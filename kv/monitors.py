"""
Online monitors shared by the checks: stall sanitizer, branch/line probes (sys.monitoring).
"""
from __future__ import annotations

import ast
import asyncio
import inspect
import sys
import traceback
from typing import Any, Callable

mon = sys.monitoring
STALL_TOOL = 4
PROBE_TOOL = 3


class StallDetected(BaseException):
    """Raised INTO spinning code to break it; a logical-step verdict, never a wall-clock one."""


class Stall:
    budget = 200_000
    state = {'in_cb': False, 'n': 0, 'armed': True}
    hits: list[dict[str, Any]] = []
    installed = False
    max_seen = 0

    nudges = 0          # how many times the frozen virtual clock was nudged forward to break a zero-time spin
    _nudged_in_cb = 0

    @classmethod
    def _on_start(cls, code: Any, off: int) -> Any:
        st = cls.state
        if not st['in_cb']:
            return None
        st['n'] += 1
        if st['n'] > cls.budget and st['armed']:
            # A real clock always advances while code runs; the virtual one is frozen inside a callback. Code that spins on
            # "not yet time" float noise (a - b < c while b + c - a <= 0) ends after nanoseconds in reality: nudge the virtual
            # clock by 1us a few times before calling it a stall. A spin that does not depend on time survives the nudges.
            if cls._nudged_in_cb < 5:
                try:
                    import asyncio as _a
                    loop = _a.get_event_loop_policy().get_event_loop() if False else _a.get_running_loop()
                    loop._LoopTimeEventLoop__now += 1      # type: ignore[attr-defined]
                    cls._nudged_in_cb += 1
                    cls.nudges += 1
                    st['n'] = 0
                    return None
                except Exception:
                    pass
            st['armed'] = False
            stack = traceback.format_stack(limit=10)
            cls.hits.append({'stack': ''.join(stack[-8:]), 'where': f"{code.co_filename}:{code.co_name}"})
            raise StallDetected(f"one event-loop callback executed >{cls.budget} python calls without yielding")
        return None

    @classmethod
    def install(cls) -> None:
        if cls.installed:
            return
        mon.use_tool_id(STALL_TOOL, 'kv-stall')
        ev = mon.events.PY_START | mon.events.PY_RESUME
        mon.register_callback(STALL_TOOL, mon.events.PY_START, cls._on_start)
        mon.register_callback(STALL_TOOL, mon.events.PY_RESUME, cls._on_start)
        mon.set_events(STALL_TOOL, ev)
        orig = asyncio.events.Handle._run

        def _run(self: Any) -> Any:
            st = cls.state
            st['n'] = 0
            st['armed'] = True
            st['in_cb'] = True
            cls._nudged_in_cb = 0
            try:
                return orig(self)
            finally:
                if st['n'] > cls.max_seen:
                    cls.max_seen = st['n']
                st['in_cb'] = False
        asyncio.events.Handle._run = _run  # type: ignore[method-assign]
        cls.installed = True

    @classmethod
    def take_hits(cls) -> list[dict[str, Any]]:
        h, cls.hits = cls.hits, []
        return h


class LineProbe:
    """
    Count executions of specific source lines of one function (located by AST pattern in the CURRENT
    source, so it survives edits). Coverage evidence only; never a verdict.
    """
    _installed = False
    _counters: dict[tuple[Any, int], list[Any]] = {}   # (code, line) -> [name, count]

    @classmethod
    def _on_line(cls, code: Any, line: int) -> Any:
        ent = cls._counters.get((code, line))
        if ent is None:
            return mon.DISABLE
        ent[1] += 1
        return None

    @classmethod
    def _ensure(cls) -> None:
        if not cls._installed:
            mon.use_tool_id(PROBE_TOOL, 'kv-probe')
            mon.register_callback(PROBE_TOOL, mon.events.LINE, cls._on_line)
            cls._installed = True

    @classmethod
    def add(cls, fn: Any, name: str, finder: Callable[[ast.AST], int | None]) -> bool:
        """finder(tree_of_function) -> 1-based line number relative to the file, or None."""
        cls._ensure()
        try:
            src_lines, first = inspect.getsourcelines(fn)
            src = ''.join(src_lines)
            import textwrap
            tree = ast.parse(textwrap.dedent(src))
            rel = finder(tree)
        except Exception:
            return False
        if rel is None:
            return False
        line = first + rel - 1
        code = fn.__code__
        cls._counters[(code, line)] = [name, 0]
        mon.set_local_events(PROBE_TOOL, code, mon.events.LINE)
        return True

    @classmethod
    def counts(cls) -> dict[str, int]:
        out: dict[str, int] = {}
        for (_, _), (name, n) in cls._counters.items():
            out[name] = out.get(name, 0) + n
        return out

    @classmethod
    def reset(cls) -> None:
        for ent in cls._counters.values():
            ent[1] = 0
